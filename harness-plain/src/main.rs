//! C16 executor built against prometheus with `default-features = false` (the plain data model).
//! Same source as the protobuf-side executor, included by path.
#![allow(dead_code)]

#[path = "../../harness/src/exec16.rs"]
mod exec16;
#[path = "../../harness/src/neutral.rs"]
mod neutral;
#[path = "../../harness/src/src.rs"]
mod src;

fn main() {
    std::panic::set_hook(Box::new(|_| {}));
    exec16::serve();
}
