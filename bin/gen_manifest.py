#!/usr/bin/env python3
"""Regenerates MANIFEST.json from the table below (single source of truth for what is claimed)."""
import json, os, subprocess
ROOT = os.path.dirname(os.path.dirname(os.path.abspath(__file__)))

# id -> (technique, level text, level note, design_ref)
CLAIMED = {
 "C05": ("proptest-generated request sequences + reference map model (one child per tuple via unique-bit updates); libFuzzer in the thorough tier",
         "Exploration: generated vector kinds, label-name lists and request sequences biased to boundary-shifted, permuted and repeated tuples, checked against a BTreeMap model after every request and at the end; samples the input space, does not exhaust it.",
         "Trusted: the harness model; equality is up to 64-bit FNV collisions, which are not constructed.", "§4 C05"),
}
NOT_YET = {}

props = [json.loads(l) for l in open(os.path.join(ROOT, "properties.jsonl"))]
checks = []
na = []
for p in props:
    i = p["id"]
    if i in CLAIMED:
        tech, text, note, ref = CLAIMED[i]
        checks.append({
            "property_id": i,
            "quick_cmd": f"bin/check {i} quick",
            "thorough_cmd": f"bin/check {i} thorough",
            "evidence_file": f"/verif/evidence/{i}.json",
            "replay_cmd_template": f"bin/check --replay {i} {{path}}",
            "engine": "pv",
            "level_claimed": {"category": "exploration", "text": text, "design_ref": ref},
            "level_note": note,
            "technique": tech,
        })
    else:
        na.append({"property_id": i, "reason": NOT_YET.get(i, "check not built yet in this round (planned, see DESIGN.md §4); not claimed until it is both sensitive and silent")})

hooks_commits = []
try:
    out = subprocess.run(["git", "-C", "/repo", "log", "--format=%H %s"], capture_output=True, text=True).stdout
    for line in out.splitlines():
        h, s = line.split(" ", 1)
        if s.startswith("verif hook"):
            hooks_commits.append(h)
except Exception:
    pass

m = {
 "version": 1,
 "setup_cmd": "bin/setup",
 "hooks": {
   "guard": "--cfg prometheus_verif",
   "enable": "RUSTFLAGS='--cfg prometheus_verif' (set in /verif/harness*/.cargo/config.toml); the harness crates depend on /repo by path, so every check rebuilds from the working tree",
   "baseline_off_cmd": "cd /repo && cargo test --workspace --no-fail-fast --offline",
   "source_commits": hooks_commits,
   "add_only": True,
 },
 "engines": [
   {"name": "pv", "path": "harness", "serves_properties": [c["property_id"] for c in checks],
    "kind_free_text": "proptest-driven byte-string cases decoded by a monotone reader; models / round trips / differential oracles; deterministic scheduler for schedule properties; libFuzzer targets share the same decode+oracle code"},
 ],
 "checks": checks,
 "not_applicable": na,
 "notes": "All checks are exploration (property-based testing / fuzzing). Exit 2 = inconclusive (harness build failure, watchdog). Known findings: known_findings.json.",
}
json.dump(m, open(os.path.join(ROOT, "MANIFEST.json"), "w"), indent=1)
print("claimed:", [c["property_id"] for c in checks])
