#!/usr/bin/env python3
"""Regenerates MANIFEST.json from the table below (single source of truth for what is claimed)."""
import json, os, subprocess
ROOT = os.path.dirname(os.path.dirname(os.path.abspath(__file__)))

# id -> (technique, level text, level note, design_ref)
CLAIMED = {
 "C01": ("proptest-generated programs + generated schedules run by a deterministic scheduler over the cfg-guarded sync shim; exhaustive linearizability (WGL) search and self-describing (unique power-of-two) increment sets",
         "Exploration over schedules: 2-3 real threads run real library code one atomic step at a time in a generated order (random walk, PCT, window; injected spurious CAS failures); every history is checked for linearizability and against the subset rules of the statement. Interleavings are sampled; in addition a sample of small programs is enumerated completely up to a bound on pre-emptions, and a stage on free-running OS threads repeats the programs without the scheduler (§8.1).",
         "Trusted: the scheduler and the sync shim (executions are sequentially consistent interleavings of the hooked operations).", "§3, §4 C01"),
 "C02": ("proptest-generated observe/flush/collect programs + generated schedules (deterministic scheduler); consistent-cut set oracle via unique power-of-two observations; happens-before (vector clock) monitor over the reported memory orderings",
         "Exploration over schedules plus a dynamic happens-before analysis of each explored execution: every snapshot must be one consistent cut, and every swap of the collector must be ordered by happens-before (already at the count hand-off gate) with all other accesses to the location. The HB monitor certifies the synchronisation pattern of explored executions; it does not enumerate weak-memory reorderings.",
         "Trusted: scheduler, shim, and the vector-clock model of release/acquire (C++11 release sequences).", "§3, §4 C02"),
 "C03": ("proptest-generated long observe/flush/collect histories + generated schedules incl. isolation schedules and single-worker sequential histories (deterministic scheduler); growth / conservation / batch-atomicity set oracle; stuck detection for termination",
         "Exploration over schedules and histories: snapshots ordered in real time must describe growing sets, the quiescent snapshot all observations; a collect that cannot return once everything in flight has finished is a deterministic 'stuck' / 'starved' verdict. Liveness is reduced to these finite checks.",
         "Trusted: scheduler, shim, the futile-spin rule (a repeated failed CAS on an unwritten location cannot succeed).", "§3, §4 C03"),
 "C10": ("proptest-generated vector programs + generated schedules (deterministic scheduler) and single-thread histories; exhaustive linearizability search against the map model of appendix C",
         "Exploration over schedules and sequential histories of get-or-create / update / remove / reset / collect on overlapping (boundary-shifted) tuples. A collection is judged as one atomic read of the key set plus one linearizable read per exposed child (updates through handles are lock-free, so a multi-child snapshot is not claimed to be atomic).",
         "Trusted: scheduler, shim, the map model.", "§3, §4 C10"),
 "C11": ("proptest-generated gauge programs + generated schedules (deterministic scheduler); exhaustive linearizability search; signed-sum check on set-free programs",
         "Exploration over schedules of set/inc/dec/add/sub/get on a float or integer gauge with pre-emption between the load and the compare-exchange and injected spurious CAS failures.",
         "Trusted: scheduler and shim; values are exactly representable.", "§3, §4 C11"),
 "C16": ("proptest-generated API scenarios executed by one source compiled against both feature configurations; differential oracle (byte-identical dumps)",
         "Exploration: generated scenarios run in the protobuf-backed build (in-process) and in a --no-default-features child process; gathered structure, text encodings and call outcomes must be identical.",
         "Trusted: the executor uses only API common to both data models; a build that disagrees with itself is reported as nondeterministic, not as a violation.", "§4 C16"),
 "C19": ("grammar-generated macro declarations (programs) compiled in batches against the working tree with generated drivers; backing-vector oracle with leaf-unique update amounts; byte-level shrinking by rebuild",
         "Exploration over programs: declarations from a bounded grammar (<= 4 labels x 4 values, plus per run a few of deployment size - thousands of leaves - and with 9-14 labels) are compiled and run; every accessor path (handle field path, get(enum), try_get, the inner struct of a hand-written thread_local, a second instance on a second vector) must address exactly its leaf's child. Case counts are two orders of magnitude lower than elsewhere because each batch costs a compiler run.",
         "Trusted: the code emitter of the harness (driver and expectation are generated from the same declaration record).", "§4 C19"),
 "C20": ("complete enumeration of the 110 macro arm x trailing-comma variants (generated wrapper file) x proptest-generated run-time inputs; explicit-constructor equivalence oracle",
         "Exhaustive over macro arms, sampled over inputs: every arm is driven in every case; descriptor, buckets, target registry, handle identity, both kinds of refusal, and that every argument expression is evaluated exactly once, are compared with the explicit calls.",
         "Trusted: the arm table generator (gen/gen_c20_arms.py); only valid constructor arguments are generated.", "§4 C20"),
 "C04": ("proptest-generated families + independent text-format 0.0.4 parser round trip; append/concat metamorphic relations; libFuzzer in the thorough tier",
         "Exploration: generated metric families (adversarial help/label strings, every f64 class, all four printable types, custom and gathered) are encoded and read back by a parser written from the format description; the parsed record sequence must equal the one computed from the input. Samples the input space.",
         "Trusted: the reference parser (Appendix B of DESIGN.md) and the neutral family records read through the public getters.", "§4 C04"),
 "C05": ("proptest-generated request sequences + reference map model (one child per tuple via unique-bit updates); libFuzzer in the thorough tier",
         "Exploration: generated vector kinds, label-name lists and request sequences biased to boundary-shifted, permuted and repeated tuples, checked against a BTreeMap model after every request and at the end; samples the input space, does not exhaust it.",
         "Trusted: the harness model; equality is up to 64-bit FNV collisions (one known colliding pair is in the pools and reported as KNOWN-FINDING; none other is constructed).", "§4 C05"),
 "C06": ("proptest-generated register/unregister/gather histories (stateful) + reference admission model + twin/fresh-replica registries (metamorphic)",
         "Exploration: generated histories over overlapping collectors incl. multi-descriptor ones refused part-way; every result and every gather() is compared with a reference model and with registries that never saw the refused calls.",
         "Trusted: the admission model derived from the statement; self-inconsistent collectors are out of domain.", "§4 C06"),
 "C07": ("proptest-generated registry scenarios + model of the prescribed gather() result + rebuild-and-compare determinism (permuted registration, fresh hash seeds, fresh processes)",
         "Exploration: generated scenarios (incl. composite collectors, collectors that gather a registry of their own, common labels named like own labels) are gathered and compared with the result the statement prescribes, then rebuilt 5 times under other registration orders / hash seeds and in other processes; all must be identical. A third of the cases then change the gathered registry (children, values, unregister / register) and compare every further gather with the model of its moment.",
         "Trusted: the scenario model; hash seeds are sampled (std RandomState per map / per process), not enumerated.", "§4 C07"),
 "C08": ("proptest-generated bucket lists and f64 observation sequences + acceptance predicate + naive count/sum reference; libFuzzer in the thorough tier",
         "Exploration: generated bucket configurations (half invalid) and observation sequences over every f64 class through Histogram, HistogramVec children and LocalHistogram, compared with a naive reference after generated collections.",
         "Trusted: the reference fold; single-threaded histories only (concurrency is C02/C03).", "§4 C08"),
 "C09": ("proptest-generated name/label/help strings incl. non-ASCII + independent byte-level recognisers; validity of every gathered sample",
         "Exploration: generated constructor arguments and registry prefix/common labels (hand-written adversarial pools plus a computed pool of every non-ASCII character whose Unicode case mapping is pure ASCII); Ok/Err must follow the two regular languages and the duplicate / le / help rules, and every gathered name must be valid and pairwise distinct per sample. In addition one finite sub-space is enumerated completely on every run: every Unicode scalar value as leading and as non-leading character of a metric name and of a label name (4 x 1 112 064 Desc::new calls).",
         "Trusted: the recognisers. One known finding (registry common label equal to a metric label) is reported as KNOWN-FINDING.", "§4 C09"),
 "C12": ("proptest-generated local/shared update, flush, reset, clone, drop, remove histories (stateful) + reference model per shared child object",
         "Exploration: generated histories over up to 4 local handles of one shared counter / histogram / vector (bursts of up to 4400 tuples per local vector, clone_from between handles of two children; thorough tier: one batch of 2^32+5 observations); shared values (also of detached children) and every local's pending data are compared with the model after every operation.",
         "Trusted: the model, which mirrors float addition order; single-threaded.", "§4 C12"),
 "C13": ("proptest-generated families incl. unset optional fields + hand-written proto2 wire decoder round trip; libFuzzer in the thorough tier",
         "Exploration: generated families of every MetricType are encoded and decoded by an independent wire decoder; framing, field numbers, wire types, UTF-8, values (bit-exact) and presence must match the input.",
         "Trusted: the decoder and its hand-transcribed schema. Protobuf build only.", "§4 C13"),
 "C14": ("proptest-generated registry scenarios incl. mixed kinds under one name + payload-kind / real-value oracle + type stability across rebuilds",
         "Exploration: generated scenarios gathered 6 times; every sample must carry exactly the payload of its family's type and read as the metric's real value. The mixed-kind class is a known finding (KNOWN-FINDING), anything else is a violation.",
         "Trusted: the scenario's knowledge of each metric's real value; payload presence observable in the protobuf build only.", "§4 C14"),
 "C15": ("proptest-generated descriptor pairs from adversarial pools + independently computed structural keys <=> hash equality; registry verdicts follow the keys",
         "Exploration: generated pairs (boundary shifts between name / values and between help / label names, order/route changes, const-vs-variable placement, long components and structural variants of them, length-wrap twins, case and white-space variants) through Desc::new, Opts and HistogramOpts.",
         "Trusted: the structural keys; up to 64-bit hash collisions (one known colliding pair is in the pools and reported as KNOWN-FINDING).", "§4 C15"),
 "C17": ("proptest-generated arbitrary arguments for every Result-returning API + catch_unwind no-panic oracle + documented Ok/Err expectations; libFuzzer in the thorough tier",
         "Exploration: 1-8 generated calls per case over 27 fallible entry points with arbitrary Unicode, cardinalities, f64 parameters, arbitrary families and failing writers.",
         "Trusted: the recognisers of C08/C09 for the Ok/Err expectation; documented-panic entry points are not called.", "§4 C17"),
 "C18": ("proptest-generated timer start/stop/discard/drop/move-to-thread histories (stateful) + count model and exact-duration check",
         "Exploration: generated histories over shared and local timers incl. cross-thread ends; after every operation the count, the cumulative buckets le=-1 (must stay 0) and le=f64::MAX (must equal the count) of the shared histogram, every local's pending count, and the sum increment against the returned duration.",
         "Trusted: the count model; nothing depends on elapsed time.", "§4 C18"),
}
NOT_YET = {}

props = [json.loads(l) for l in open(os.path.join(ROOT, "properties.jsonl"))]
checks = []
na = []
for p in props:
    i = p["id"]
    if i in CLAIMED:
        tech, text, note, ref = CLAIMED[i]
        checks.append({
            "property_id": i,
            "quick_cmd": f"bin/check {i} quick",
            "thorough_cmd": f"bin/check {i} thorough",
            "evidence_file": f"/verif/evidence/{i}.json",
            "replay_cmd_template": f"bin/check --replay {i} {{path}}",
            "engine": "pv",
            "level_claimed": {"category": "exploration", "text": text, "design_ref": ref},
            "level_note": note,
            "technique": tech,
        })
    else:
        na.append({"property_id": i, "reason": NOT_YET.get(i, "check not built yet in this round (planned, see DESIGN.md §4); not claimed until it is both sensitive and silent")})

hooks_commits = []
try:
    out = subprocess.run(["git", "-C", "/repo", "log", "--format=%H %s"], capture_output=True, text=True).stdout
    for line in out.splitlines():
        h, s = line.split(" ", 1)
        if s.startswith("verif hook"):
            hooks_commits.append(h)
except Exception:
    pass

m = {
 "version": 1,
 "setup_cmd": "bin/setup",
 "hooks": {
   "guard": "--cfg prometheus_verif",
   "enable": "RUSTFLAGS='--cfg prometheus_verif' (set in /verif/harness*/.cargo/config.toml); the harness crates depend on /repo by path, so every check rebuilds from the working tree",
   "baseline_off_cmd": "cd /repo && cargo test --workspace --no-fail-fast --offline",
   "source_commits": hooks_commits,
   "add_only": True,
 },
 "engines": [
   {"name": "pv", "path": "harness", "serves_properties": [c["property_id"] for c in checks],
    "kind_free_text": "proptest-driven byte-string cases decoded by a monotone reader; models / round trips / differential oracles; deterministic scheduler for schedule properties; libFuzzer targets share the same decode+oracle code"},
 ],
 "checks": checks,
 "not_applicable": na,
 "notes": "All checks are exploration (property-based testing / fuzzing). Exit 2 = inconclusive (harness build failure, watchdog). Known findings: known_findings.json.",
}
json.dump(m, open(os.path.join(ROOT, "MANIFEST.json"), "w"), indent=1)
print("claimed:", [c["property_id"] for c in checks])
