#!/usr/bin/env python3
"""Sensitivity (mutation) protocol, DESIGN.md §2.6.

Applies each mutant of mutants/catalog.py to a scratch copy of /repo (never to /repo itself), runs the quick
check of every property the mutant is expected to break with VERIF_REPO pointing at the copy, and records
whether a VIOLATION was reported. Results: mutants/results.json and mutants/RESULTS.md.

usage: bin/mutants.py [--jobs N] [--only <mutant-id-substring>] [--prop Cxx]
"""
import json, os, subprocess, sys, shutil, time, importlib.util
from concurrent.futures import ThreadPoolExecutor

ROOT = os.path.dirname(os.path.dirname(os.path.abspath(__file__)))
SCRATCH = "/tmp/pvmut"

def load_catalog():
    spec = importlib.util.spec_from_file_location("catalog", os.path.join(ROOT, "mutants", "catalog.py"))
    m = importlib.util.module_from_spec(spec); spec.loader.exec_module(m)
    return m.MUTANTS

def sync(slot):
    d = os.path.join(SCRATCH, f"slot{slot}", "repo")
    os.makedirs(d, exist_ok=True)
    subprocess.run(["rsync", "-a", "--delete", "--exclude", "target", "--exclude", ".git", "/repo/", d + "/"], check=True)
    return d

def run_one(args):
    m, slot = args
    d = sync(slot)
    res = {"id": m["id"], "props": m["props"], "note": m.get("note", ""), "runs": []}
    for e in m["edits"]:
        p = os.path.join(d, e["file"])
        s = open(p).read()
        if e["old"] not in s:
            res["error"] = f"pattern not found in {e['file']}"
            return res
        s = s.replace(e["old"], e["new"], e.get("count", 1))
        open(p, "w").write(s)
    if TESTS:
        t0 = time.time()
        try:
            r = subprocess.run(["timeout", "-k", "5", "300", "cargo", "test", "--workspace", "--offline", "--no-fail-fast", "-q"], cwd=d,
                               env=dict(os.environ, CARGO_TARGET_DIR=os.path.join(SCRATCH, f"slot{slot}", "testtarget"), CARGO_NET_OFFLINE="true"),
                               capture_output=True, text=True)
        except Exception as e:
            r = subprocess.CompletedProcess([], 1, "", str(e))
        if r.returncode != 0:
            # the repository's own suite has one racy test (registry::tests::test_default_registry): retry once
            try:
                r = subprocess.run(["timeout", "-k", "5", "300", "cargo", "test", "--workspace", "--offline", "--no-fail-fast", "-q"], cwd=d,
                                   env=dict(os.environ, CARGO_TARGET_DIR=os.path.join(SCRATCH, f"slot{slot}", "testtarget"), CARGO_NET_OFFLINE="true"),
                                   capture_output=True, text=True)
            except Exception as e:
                r = subprocess.CompletedProcess([], 1, "", str(e))
        res["repo_tests_pass"] = r.returncode == 0
        if r.returncode != 0:
            import re as _re
            res["repo_tests_failed"] = sorted(set(_re.findall(r"^test (\S+) \.\.\. FAILED", r.stdout, _re.M)))[:6] or (["timeout/hang"] if r.returncode in (124, 137) else [])
        res["repo_tests_secs"] = round(time.time() - t0, 1)
        if r.returncode != 0:
            res["repo_tests_tail"] = (r.stdout + r.stderr)[-600:]
    env = dict(os.environ, VERIF_REPO=d, VERIF_EVIDENCE_DIR=os.path.join(SCRATCH, f"slot{slot}", "evidence"), VERIF_SEED=os.environ.get("VERIF_SEED", "1"))
    for prop in m["props"]:
        t0 = time.time()
        try:
            r = subprocess.run([os.path.join(ROOT, "bin", "check"), prop, "quick"], cwd=ROOT, env=env, capture_output=True, text=True, timeout=1500)
            out = r.stdout
            code = r.returncode
        except subprocess.TimeoutExpired:
            out, code = "", 124
        sig = ""
        for line in out.splitlines():
            if line.startswith("case detail: signature="):
                sig = line[len("case detail: signature="):].split(" :: ")[0]
        res["runs"].append({"prop": prop, "exit": code, "caught": code == 1 and "VIOLATION property=" + prop in out, "signature": sig, "secs": round(time.time() - t0, 1)})
    return res

TESTS = False

def main():
    global TESTS
    jobs = 4; only = None; prop = None; flagged = False
    a = sys.argv[1:]
    while a:
        x = a.pop(0)
        if x == "--jobs": jobs = int(a.pop(0))
        elif x == "--only": only = a.pop(0)
        elif x == "--prop": prop = a.pop(0)
        elif x == "--tests": TESTS = True
        elif x == "--flagged": flagged = True
    muts = load_catalog()
    if only: muts = [m for m in muts if any(o in m["id"] for o in only.split(","))]
    if flagged:
        prev = {r["id"]: r for r in json.load(open(os.path.join(ROOT, "mutants", "results.json")))}
        muts = [m for m in muts if prev.get(m["id"], {}).get("repo_tests_pass") is False]
    if prop: muts = [dict(m, props=[prop]) for m in muts if prop in m["props"]]
    # static slot assignment: mutant i runs in slot i % jobs, sequentially within a slot
    slots = [[] for _ in range(jobs)]
    for i, m in enumerate(muts): slots[i % jobs].append(m)
    def run_slot(k):
        return [run_one((m, k)) for m in slots[k]]
    with ThreadPoolExecutor(jobs) as ex:
        results = [r for rs in ex.map(run_slot, range(jobs)) for r in rs]
    order = {m["id"]: i for i, m in enumerate(muts)}
    results.sort(key=lambda r: order[r["id"]])
    path = os.path.join(ROOT, "mutants", "results.json")
    old = {}
    if os.path.exists(path):
        old = {r["id"]: r for r in json.load(open(path))}
    for r in results: old[r["id"]] = r
    allr = list(old.values())
    json.dump(allr, open(path, "w"), indent=1)
    with open(os.path.join(ROOT, "mutants", "RESULTS.md"), "w") as f:
        f.write("| mutant | property | caught | signature | secs | note |\n|---|---|---|---|---|---|\n")
        for r in allr:
            if "error" in r:
                f.write(f"| {r['id']} | {','.join(r['props'])} | ERROR | {r['error']} | | |\n"); continue
            tp = r.get("repo_tests_pass")
            tnote = "" if tp is None else (" [repo tests pass]" if tp else " [REPO TESTS FAIL: %s]" % ", ".join(r.get("repo_tests_failed", [])))
            for run in r["runs"]:
                f.write(f"| {r['id']} | {run['prop']} | {'yes' if run['caught'] else 'NO (exit %d)' % run['exit']} | {run['signature']} | {run['secs']} | {r['note']}{tnote} |\n")
    for r in results:
        if "error" in r: print(r["id"], "ERROR", r["error"]); continue
        for run in r["runs"]:
            print(("" if r.get("repo_tests_pass", True) else "[REPO TESTS FAIL] ") + f"{r['id']:55s} {run['prop']} {'caught' if run['caught'] else 'MISSED(exit %d)' % run['exit']:16s} {run['signature'][:50]:50s} {run['secs']}s")
    for k in range(jobs):
        shutil.rmtree(os.path.join(SCRATCH, f"slot{k}"), ignore_errors=True)
        # the alternative target dirs of bin/check for the scratch copies
    import hashlib
    for k in range(jobs):
        tag = hashlib.md5(os.path.join(SCRATCH, f"slot{k}", "repo").encode()).hexdigest()[:10]
        shutil.rmtree(os.path.join(ROOT, "target", "alt-" + tag), ignore_errors=True)

if __name__ == "__main__":
    main()
