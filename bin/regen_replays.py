#!/usr/bin/env python3
"""Regenerates the replay files of fixed defects and known findings after a change to a case decoder.

A replay file is the byte string of a case; its meaning depends on the decoder. For every `fixed` entry of
known_findings.json the fix commit is reversed in a scratch copy of /repo, the quick check of the property is run
there (it must report a violation again - this also re-validates that the check still catches the defect), and the
shrunk case becomes the new replay file. For every `known` entry the check is run on the unchanged tree with
PV_IGNORE_KNOWN=1. Replay files are only replaced when a violation with a matching signature was obtained.

usage: bin/regen_replays.py [--only C05,C09]
"""
import json, os, re, shutil, subprocess, sys
ROOT = os.path.dirname(os.path.dirname(os.path.abspath(__file__)))
SCRATCH = "/tmp/pvregen"

# fixed entry -> (replay file, expected signature prefix); several entries of one property are told apart by signature
FIXED = {
  "3b7e3e7": ("replays/C05/fixed-D1-boundary-shift.bin", ["fresh-child-not-zero", "wrong-child-for-tuple", "child-value-mismatch"]),
}

def run_check(prop, env_extra):
    env = dict(os.environ, VERIF_EVIDENCE_DIR=os.path.join(SCRATCH, "evidence"), **env_extra)
    r = subprocess.run([os.path.join(ROOT, "bin", "check"), prop, "quick"], cwd=ROOT, env=env, capture_output=True, text=True)
    sig, path = None, None
    for line in r.stdout.splitlines():
        if line.startswith("case detail: signature="):
            sig = line[len("case detail: signature="):].split(" :: ")[0]
        m = re.match(r"VIOLATION property=\S+ replay=(\S+)", line)
        if m: path = m.group(1)
    return r.returncode, sig, path, r.stdout[-400:]

def main():
    only = None
    a = sys.argv[1:]
    while a:
        x = a.pop(0)
        if x == "--only": only = a.pop(0).split(",")
    k = json.load(open(os.path.join(ROOT, "known_findings.json")))
    ok = True
    for e in k["findings"]:
        prop = e["property"]
        if only and prop not in only: continue
        replays = [r.strip() for r in e.get("replay", "").split(",") if r.strip()]
        if not replays: continue
        if e["status"] == "fixed":
            d = os.path.join(SCRATCH, "repo")
            shutil.rmtree(d, ignore_errors=True); os.makedirs(d)
            subprocess.run(["rsync", "-a", "--exclude", "target", "--exclude", ".git", "/repo/", d + "/"], check=True)
            diff = subprocess.run(["git", "-C", "/repo", "show", "--format=", e["commit"]], capture_output=True, text=True).stdout
            p = subprocess.run(["patch", "-R", "-p1", "-s"], cwd=d, input=diff, capture_output=True, text=True)
            if p.returncode != 0:
                print(f"{prop} {e['commit']}: cannot reverse the fix ({p.stdout[-200:]})"); ok = False; continue
            for rp in replays:
                # several replays of one fix (C19): each was a different failing input; regenerate with different seeds
                seed = str(1 + replays.index(rp) * 7)
                code, sig, path, tail = run_check(prop, {"VERIF_REPO": d, "VERIF_SEED": seed})
                if code == 1 and path and not path.startswith(os.path.join(ROOT, "replays")):
                    shutil.copy(path, os.path.join(ROOT, rp)); print(f"{prop} {e['commit']}: {rp} <- {sig}")
                elif code == 1 and path:
                    print(f"{prop} {e['commit']}: {rp} still reproduces as it is ({sig})")
                else:
                    print(f"{prop} {e['commit']}: NO violation on the pre-fix tree (exit {code}) {tail}"); ok = False
        else:
            code, sig, path, tail = run_check(prop, {"PV_IGNORE_KNOWN": "1"})
            if code == 1 and sig == e["signature"] and path:
                if not path.startswith(os.path.join(ROOT, "replays")):
                    shutil.copy(path, os.path.join(ROOT, replays[0]))
                print(f"{prop} known {e['signature']}: {replays[0]} <- regenerated")
            else:
                print(f"{prop} known {e['signature']}: got exit {code} signature {sig}"); ok = False
    shutil.rmtree(SCRATCH, ignore_errors=True)
    sys.exit(0 if ok else 1)

if __name__ == "__main__":
    main()
