#!/usr/bin/env python3
"""Re-runs the quick tier of our checks against every seeded change under seeded/<id>/ (patch applied to a scratch
copy of /repo, never to /repo itself). Results: seeded/RESULTS.md.   usage: bin/seeds.py [--jobs N] [--only id,id]"""
import json, os, subprocess, sys, shutil, time, glob
from concurrent.futures import ThreadPoolExecutor

ROOT = os.path.dirname(os.path.dirname(os.path.abspath(__file__)))
SCRATCH = "/tmp/pvseed"

def run_one(args):
    did, slot = args
    meta = json.load(open(os.path.join(ROOT, "seeded", did, "meta.json")))
    d = os.path.join(SCRATCH, f"slot{slot}", "repo")
    os.makedirs(d, exist_ok=True)
    subprocess.run(["rsync", "-a", "--delete", "--exclude", "target", "--exclude", ".git", "/repo/", d + "/"], check=True)
    r = subprocess.run(["patch", "-p1", "-s", "-i", os.path.join(ROOT, "seeded", did, "patch.diff")], cwd=d, capture_output=True, text=True)
    out = {"id": did, "property": meta["property"], "runs": []}
    if r.returncode != 0:
        out["error"] = "patch does not apply: " + (r.stdout + r.stderr)[-300:]
        return out
    env = dict(os.environ, VERIF_REPO=d, VERIF_EVIDENCE_DIR=os.path.join(SCRATCH, f"slot{slot}", "evidence"), VERIF_SEED=os.environ.get("VERIF_SEED", "1"))
    # "caught_by_stage": [[property, replay file of a thorough-tier stage, relative to /verif]] - run through bin/check --replay
    stages = meta["our_checks"].get("caught_by_stage", [])
    expected_miss = not meta["our_checks"]["caught_by"] and not stages
    todo = [(pr, None) for pr in (meta["our_checks"]["caught_by"] or ([] if stages else meta["our_checks"].get("not_caught_by", [])))] + [(pr, f) for pr, f in stages]
    for prop, stage in todo:
        t0 = time.time()
        cmd = [os.path.join(ROOT, "bin", "check"), prop, "quick"] if stage is None else [os.path.join(ROOT, "bin", "check"), "--replay", prop, os.path.join(ROOT, stage)]
        try:
            p = subprocess.run(cmd, cwd=ROOT, env=env, capture_output=True, text=True, timeout=1800)
            text, code = p.stdout, p.returncode
        except subprocess.TimeoutExpired:
            text, code = "", 124
        sig = ""
        for line in text.splitlines():
            if line.startswith("case detail: signature="):
                sig = line[len("case detail: signature="):].split(" :: ")[0]
        out["runs"].append({"prop": prop + ("" if stage is None else " (thorough-tier stage, replayed)"), "caught": code == 1 and ("VIOLATION property=" + prop.split()[0]) in text, "exit": code, "signature": sig, "secs": round(time.time() - t0, 1), "expected_miss": expected_miss})
    return out

def main():
    jobs = 4; only = None
    a = sys.argv[1:]
    while a:
        x = a.pop(0)
        if x == "--jobs": jobs = int(a.pop(0))
        elif x == "--only": only = a.pop(0).split(",")
    ids = sorted(os.path.basename(os.path.dirname(p)) for p in glob.glob(os.path.join(ROOT, "seeded", "*", "meta.json")))
    if only: ids = [i for i in ids if i in only]
    slots = [[] for _ in range(jobs)]
    for i, d in enumerate(ids): slots[i % jobs].append(d)
    with ThreadPoolExecutor(jobs) as ex:
        res = [r for rs in ex.map(lambda k: [run_one((d, k)) for d in slots[k]], range(jobs)) for r in rs]
    res.sort(key=lambda r: r["id"])
    with open(os.path.join(ROOT, "seeded", "RESULTS.md"), "w") as f:
        f.write("| seeded change | check | caught | signature | secs |\n|---|---|---|---|---|\n")
        for r in res:
            if "error" in r:
                f.write(f"| {r['id']} | | ERROR | {r['error']} | |\n"); continue
            for run in r["runs"]:
                f.write(f"| {r['id']} | {run['prop']} | {'yes' if run['caught'] else ('not decided by this check (exit %d), see meta.json' if run.get('expected_miss') else 'NO (exit %d)') % run['exit']} | {run['signature']} | {run['secs']} |\n")
    for r in res:
        if "error" in r: print(r["id"], "ERROR", r["error"]); continue
        for run in r["runs"]:
            print(f"{r['id']:6s} {run['prop']} {'caught' if run['caught'] else 'MISSED(exit %d)' % run['exit']:16s} {run['signature'][:60]:60s} {run['secs']}s")
    shutil.rmtree(SCRATCH, ignore_errors=True)
    for dname in os.listdir(os.path.join(ROOT, "target")):
        if dname.startswith("alt-") or dname.startswith("c19-alt-"):
            pass  # left for incremental reuse; remove with: rm -rf target/alt-* target/c19-alt-*
    bad = [r for r in res if "error" in r or not all(x["caught"] or x.get("expected_miss") for x in r["runs"])]
    sys.exit(1 if bad else 0)

if __name__ == "__main__":
    main()
