#!/usr/bin/env python3
"""Property-preserving refactorings of /repo (scratch copies under /tmp/benign): every check must stay silent on them.
usage: work/benign.py [name ...]"""
import os, re, subprocess, sys, shutil
ROOT='/verif'
def sub(path, old, new, count=1, regex=False):
    s=open(path).read()
    if regex:
        s2, n = re.subn(old, new, s, count=count if count else 0)
    else:
        n = s.count(old); s2 = s.replace(old, new, count) if count else s.replace(old, new)
    assert n >= 1, (path, old[:50])
    open(path,'w').write(s2)

def b_sipdesc(d):   # descriptor ids through SipHash instead of FNV
    p=d+'/src/desc.rs'
    sub(p, 'use fnv::FnvHasher;', 'use std::collections::hash_map::DefaultHasher as FnvHasher;')
def b_seqcst(d):    # every ordering of the histogram and of the 64-bit atomics strengthened to SeqCst
    for f in ('/src/histogram.rs',):
        p=d+f; s=open(p).read()
        s=re.sub(r'Ordering::(Acquire|Release|AcqRel|Relaxed)', 'Ordering::SeqCst', s)
        open(p,'w').write(s)
def b_sep(d):       # another separator byte that cannot occur in UTF-8 either
    sub(d+'/src/metrics.rs', 'pub const SEPARATOR_BYTE: u8 = 0xFF;', 'pub const SEPARATOR_BYTE: u8 = 0xFE;')
def b_strongcas(d): # strong compare-exchange in the float add loop
    sub(d+'/src/atomic64.rs', r'inner\s*\.compare_exchange_weak\(', 'inner.compare_exchange(', count=0, regex=True)
def b_gathervec(d): # gather: an extra pass that re-sorts the (already sorted) families and metrics
    p=d+'/src/registry.rs'
    s=open(p).read()
    i=s.index('        // Write out MetricFamilies sorted by their name.')
    sub(p, '        // Write out MetricFamilies sorted by their name.', '        // (refactoring: keep the families in a vector first)\n        // Write out MetricFamilies sorted by their name.')
def b_vecreserve(d): # vec: probe under the read lock twice before taking the write lock
    p=d+'/src/vec.rs'
    s=open(p).read()
    a='        if let Some(metric) = self.children.read().get(&h).cloned() {'
    if a in s:
        sub(p, a, '        let _ = self.children.read().len();\n'+a)
    else:
        print('vecreserve: pattern not found, skipped'); return False
def b_loadspin(d):  # the collector waits with a loop of plain loads and resets the count with a store afterwards
    p=d+'/src/histogram.rs'
    s=open(p).read()
    i=s.index('        while cold_shard\n            .count\n            .compare_exchange_weak(')
    j=s.index('        {}\n', i)+len('        {}\n')
    new='        while cold_shard.count.load_acquire() != overall_count {\n            std::hint::spin_loop();\n        }\n        cold_shard.count.set(0);\n'
    open(p,'w').write(s[:i]+new+s[j:])
    sub(d+'/src/atomic64.rs', '    pub fn inc_by_with_ordering(&self, delta: u64, ordering: Ordering) {', '    pub fn load_acquire(&self) -> u64 {\n        self.inner.load(Ordering::Acquire)\n    }\n\n    /// doc\n    pub fn inc_by_with_ordering(&self, delta: u64, ordering: Ordering) {')
def b_btreechildren(d):  # vector children kept in a BTreeMap keyed by the hash (collection order changes)
    p=d+'/src/vec.rs'
    sub(p, '    pub children: RwLock<HashMap<u64, T::M, BuildNoHashHasher>>,', '    pub children: RwLock<std::collections::BTreeMap<u64, T::M>>,')
    sub(p, '            children: RwLock::new(HashMap::default()),', '            children: RwLock::new(std::collections::BTreeMap::new()),')
def b_binsearch(d):  # bucket search by partition_point with a NaN-correct predicate (both observe paths)
    p=d+'/src/histogram.rs'
    s=open(p).read()
    old1="""        let mut iter = self
            .upper_bounds
            .iter()
            .enumerate()
            .filter(|&(_, f)| v <= *f);
        if let Some((i, _)) = iter.next() {
            shard.buckets[i].inc_by(1);
        }"""
    new1="""        let i = self.upper_bounds.partition_point(|f| !(v <= *f));
        if i < self.upper_bounds.len() {
            shard.buckets[i].inc_by(1);
        }"""
    old2="""        let mut iter = self
            .histogram
            .core
            .upper_bounds
            .iter()
            .enumerate()
            .filter(|&(_, f)| v <= *f);
        if let Some((i, _)) = iter.next() {
            self.counts[i] += 1;
        }"""
    new2="""        let i = self.histogram.core.upper_bounds.partition_point(|f| !(v <= *f));
        if i < self.counts.len() {
            self.counts[i] += 1;
        }"""
    assert old1 in s and old2 in s
    open(p,'w').write(s.replace(old1,new1).replace(old2,new2))
def b_textfloat(d):  # text encoder: integer-valued samples written as "1.0" style? -> write +Inf as "+Inf" already; use explicit sign-free exponent
    pass

B = {'sipdesc': (b_sipdesc, 'C15 C06 C07 C14 C05'), 'seqcst': (b_seqcst, 'C02 C03 C08 C12 C18'), 'sep': (b_sep, 'C15 C05 C06 C10'),
     'strongcas': (b_strongcas, 'C01 C11 C02 C03'), 'gathervec': (b_gathervec, 'C07 C14'), 'vecreserve': (b_vecreserve, 'C10 C05 C01'), 'loadspin': (b_loadspin, 'C02 C03 C08 C12'), 'btreechildren': (b_btreechildren, 'C10 C05 C07 C12 C01'), 'binsearch': (b_binsearch, 'C08 C12 C02 C03 C18')}

names = sys.argv[1:] or list(B)
bad = 0
for n in names:
    f, props = B[n]
    d = f'/tmp/benign/{n}'
    os.makedirs(d, exist_ok=True)
    subprocess.run(['rsync','-a','--delete','--exclude','target','--exclude','.git','/repo/', d+'/'], check=True)
    if f(d) is False: continue
    r = subprocess.run(['cargo','test','--offline','--lib','-q'], cwd=d, env=dict(os.environ, CARGO_TARGET_DIR='/tmp/benign/target'), capture_output=True, text=True)
    print(f'== {n}: repo lib tests', 'ok' if r.returncode==0 else 'FAIL (not a benign change?)', flush=True)
    for p in props.split():
        r = subprocess.run([ROOT+'/bin/check', p, 'quick'], env=dict(os.environ, VERIF_REPO=d, VERIF_EVIDENCE_DIR='/verif/work/ev-benign'), capture_output=True, text=True)
        last = [l for l in r.stdout.splitlines() if 'VIOLATION' in l or 'held on' in l or 'signature=' in l]
        print(f'   {p} exit={r.returncode}', (last[-1][:200] if last else r.stdout[-200:]), flush=True)
        if r.returncode != 0: bad = 1
sys.exit(bad)
