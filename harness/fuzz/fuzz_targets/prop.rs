#![no_main]
//! One libFuzzer target for every byte-decoded property: PV_FUZZ_PROP selects the property.
//! The semantic oracle runs inside the target; a violation whose signature is not a listed known
//! finding panics with the signature, so the artifact libFuzzer saves is a `pv replay` file.
use libfuzzer_sys::fuzz_target;

fuzz_target!(|data: &[u8]| {
    pv::fuzz::one(data);
});
