//! Independent proto2 wire-format decoder with the schema of proto/proto_model.proto transcribed
//! by hand. Shares no code with the `protobuf` crate.

#[derive(Debug, Clone)]
pub enum Wire<'a> {
    Varint(u64),
    Fixed64(u64),
    Bytes(&'a [u8]),
    Fixed32(u32),
}

pub fn read_varint(b: &[u8], pos: &mut usize) -> Result<u64, String> {
    let mut v: u64 = 0;
    let mut shift = 0;
    loop {
        if *pos >= b.len() {
            return Err("truncated varint".into());
        }
        let byte = b[*pos];
        *pos += 1;
        if shift == 63 && byte > 1 {
            return Err("varint overflows 64 bits".into());
        }
        v |= ((byte & 0x7f) as u64) << shift;
        if byte & 0x80 == 0 {
            return Ok(v);
        }
        shift += 7;
        if shift > 63 {
            return Err("varint longer than 10 bytes".into());
        }
    }
}

pub fn fields(b: &[u8]) -> Result<Vec<(u32, Wire<'_>)>, String> {
    let mut out = vec![];
    let mut pos = 0;
    while pos < b.len() {
        let key = read_varint(b, &mut pos)?;
        let no = (key >> 3) as u32;
        if no == 0 {
            return Err("field number 0".into());
        }
        let w = match key & 7 {
            0 => Wire::Varint(read_varint(b, &mut pos)?),
            1 => {
                if pos + 8 > b.len() {
                    return Err("truncated fixed64".into());
                }
                let v = u64::from_le_bytes(b[pos..pos + 8].try_into().unwrap());
                pos += 8;
                Wire::Fixed64(v)
            }
            2 => {
                let len = read_varint(b, &mut pos)? as usize;
                if pos + len > b.len() {
                    return Err("truncated length-delimited field".into());
                }
                let s = &b[pos..pos + len];
                pos += len;
                Wire::Bytes(s)
            }
            5 => {
                if pos + 4 > b.len() {
                    return Err("truncated fixed32".into());
                }
                let v = u32::from_le_bytes(b[pos..pos + 4].try_into().unwrap());
                pos += 4;
                Wire::Fixed32(v)
            }
            t => return Err(format!("unsupported wire type {} for field {}", t, no)),
        };
        out.push((no, w));
    }
    Ok(out)
}

fn string(w: &Wire, what: &str) -> Result<String, String> {
    match w {
        Wire::Bytes(b) => String::from_utf8(b.to_vec()).map_err(|_| format!("{}: invalid UTF-8", what)),
        _ => Err(format!("{}: wrong wire type {:?}", what, w)),
    }
}
fn double(w: &Wire, what: &str) -> Result<u64, String> {
    match w {
        Wire::Fixed64(v) => Ok(*v),
        _ => Err(format!("{}: wrong wire type {:?}", what, w)),
    }
}
fn varint(w: &Wire, what: &str) -> Result<u64, String> {
    match w {
        Wire::Varint(v) => Ok(*v),
        _ => Err(format!("{}: wrong wire type {:?}", what, w)),
    }
}
fn bytes<'a>(w: &Wire<'a>, what: &str) -> Result<&'a [u8], String> {
    match w {
        Wire::Bytes(b) => Ok(b),
        _ => Err(format!("{}: wrong wire type {:?}", what, w)),
    }
}

fn set_once<T>(slot: &mut Option<T>, v: T, what: &str) -> Result<(), String> {
    if slot.is_some() {
        return Err(format!("{}: optional field appears twice", what));
    }
    *slot = Some(v);
    Ok(())
}

/// Doubles are kept as raw bits so that comparison is bit-exact (NaN payloads included).
#[derive(Debug, Clone, Default, PartialEq)]
pub struct DLabel {
    pub name: Option<String>,
    pub value: Option<String>,
}
#[derive(Debug, Clone, Default, PartialEq)]
pub struct DQuantile {
    pub quantile: Option<u64>,
    pub value: Option<u64>,
}
#[derive(Debug, Clone, Default, PartialEq)]
pub struct DSummary {
    pub count: Option<u64>,
    pub sum: Option<u64>,
    pub quantiles: Vec<DQuantile>,
}
#[derive(Debug, Clone, Default, PartialEq)]
pub struct DBucket {
    pub cumulative: Option<u64>,
    pub upper: Option<u64>,
}
#[derive(Debug, Clone, Default, PartialEq)]
pub struct DHistogram {
    pub count: Option<u64>,
    pub sum: Option<u64>,
    pub buckets: Vec<DBucket>,
}
#[derive(Debug, Clone, Default, PartialEq)]
pub struct DMetric {
    pub labels: Vec<DLabel>,
    pub gauge: Option<Option<u64>>,
    pub counter: Option<Option<u64>>,
    pub summary: Option<DSummary>,
    pub untyped: Option<Option<u64>>,
    pub histogram: Option<DHistogram>,
    pub ts: Option<i64>,
}
#[derive(Debug, Clone, Default, PartialEq)]
pub struct DFamily {
    pub name: Option<String>,
    pub help: Option<String>,
    pub ty: Option<u64>,
    pub metrics: Vec<DMetric>,
}

fn single_double(b: &[u8], what: &str) -> Result<Option<u64>, String> {
    let mut v = None;
    for (no, w) in fields(b)? {
        match no {
            1 => set_once(&mut v, double(&w, what)?, what)?,
            n => return Err(format!("{}: unknown field {}", what, n)),
        }
    }
    Ok(v)
}

fn label(b: &[u8]) -> Result<DLabel, String> {
    let mut l = DLabel::default();
    for (no, w) in fields(b)? {
        match no {
            1 => set_once(&mut l.name, string(&w, "LabelPair.name")?, "LabelPair.name")?,
            2 => set_once(&mut l.value, string(&w, "LabelPair.value")?, "LabelPair.value")?,
            n => return Err(format!("LabelPair: unknown field {}", n)),
        }
    }
    Ok(l)
}

fn summary(b: &[u8]) -> Result<DSummary, String> {
    let mut s = DSummary::default();
    for (no, w) in fields(b)? {
        match no {
            1 => set_once(&mut s.count, varint(&w, "Summary.sample_count")?, "Summary.sample_count")?,
            2 => set_once(&mut s.sum, double(&w, "Summary.sample_sum")?, "Summary.sample_sum")?,
            3 => {
                let mut q = DQuantile::default();
                for (no, w) in fields(bytes(&w, "Summary.quantile")?)? {
                    match no {
                        1 => set_once(&mut q.quantile, double(&w, "Quantile.quantile")?, "Quantile.quantile")?,
                        2 => set_once(&mut q.value, double(&w, "Quantile.value")?, "Quantile.value")?,
                        n => return Err(format!("Quantile: unknown field {}", n)),
                    }
                }
                s.quantiles.push(q);
            }
            n => return Err(format!("Summary: unknown field {}", n)),
        }
    }
    Ok(s)
}

fn histogram(b: &[u8]) -> Result<DHistogram, String> {
    let mut h = DHistogram::default();
    for (no, w) in fields(b)? {
        match no {
            1 => set_once(&mut h.count, varint(&w, "Histogram.sample_count")?, "Histogram.sample_count")?,
            2 => set_once(&mut h.sum, double(&w, "Histogram.sample_sum")?, "Histogram.sample_sum")?,
            3 => {
                let mut bk = DBucket::default();
                for (no, w) in fields(bytes(&w, "Histogram.bucket")?)? {
                    match no {
                        1 => set_once(&mut bk.cumulative, varint(&w, "Bucket.cumulative_count")?, "Bucket.cumulative_count")?,
                        2 => set_once(&mut bk.upper, double(&w, "Bucket.upper_bound")?, "Bucket.upper_bound")?,
                        n => return Err(format!("Bucket: unknown field {}", n)),
                    }
                }
                h.buckets.push(bk);
            }
            n => return Err(format!("Histogram: unknown field {}", n)),
        }
    }
    Ok(h)
}

fn metric(b: &[u8]) -> Result<DMetric, String> {
    let mut m = DMetric::default();
    for (no, w) in fields(b)? {
        match no {
            1 => m.labels.push(label(bytes(&w, "Metric.label")?)?),
            2 => set_once(&mut m.gauge, single_double(bytes(&w, "Metric.gauge")?, "Gauge")?, "Metric.gauge")?,
            3 => set_once(&mut m.counter, single_double(bytes(&w, "Metric.counter")?, "Counter")?, "Metric.counter")?,
            4 => set_once(&mut m.summary, summary(bytes(&w, "Metric.summary")?)?, "Metric.summary")?,
            5 => set_once(&mut m.untyped, single_double(bytes(&w, "Metric.untyped")?, "Untyped")?, "Metric.untyped")?,
            7 => set_once(&mut m.histogram, histogram(bytes(&w, "Metric.histogram")?)?, "Metric.histogram")?,
            6 => set_once(&mut m.ts, varint(&w, "Metric.timestamp_ms")? as i64, "Metric.timestamp_ms")?,
            n => return Err(format!("Metric: unknown field {}", n)),
        }
    }
    Ok(m)
}

pub fn family(b: &[u8]) -> Result<DFamily, String> {
    let mut f = DFamily::default();
    for (no, w) in fields(b)? {
        match no {
            1 => set_once(&mut f.name, string(&w, "MetricFamily.name")?, "MetricFamily.name")?,
            2 => set_once(&mut f.help, string(&w, "MetricFamily.help")?, "MetricFamily.help")?,
            3 => set_once(&mut f.ty, varint(&w, "MetricFamily.type")?, "MetricFamily.type")?,
            4 => f.metrics.push(metric(bytes(&w, "MetricFamily.metric")?)?),
            n => return Err(format!("MetricFamily: unknown field {}", n)),
        }
    }
    Ok(f)
}

/// A stream of `varint length || MetricFamily` messages, consumed exactly.
pub fn stream(b: &[u8]) -> Result<Vec<DFamily>, String> {
    let mut out = vec![];
    let mut pos = 0;
    while pos < b.len() {
        let len = read_varint(b, &mut pos)? as usize;
        if pos + len > b.len() {
            return Err(format!("message #{}: length prefix {} exceeds the remaining {} bytes", out.len(), len, b.len() - pos));
        }
        out.push(family(&b[pos..pos + len]).map_err(|e| format!("message #{}: {}", out.len(), e))?);
        pos += len;
    }
    Ok(out)
}

#[cfg(test)]
mod tests {
    use super::*;
    #[test]
    fn golden() {
        // name="a" type=1 one metric with gauge 1.0
        let msg: Vec<u8> = vec![0x0a, 1, b'a', 0x18, 1, 0x22, 11, 0x12, 9, 0x09, 0, 0, 0, 0, 0, 0, 0xf0, 0x3f];
        let mut s = vec![msg.len() as u8];
        s.extend(&msg);
        let d = stream(&s).unwrap();
        assert_eq!(d.len(), 1);
        assert_eq!(d[0].name.as_deref(), Some("a"));
        assert_eq!(d[0].ty, Some(1));
        assert_eq!(d[0].metrics[0].gauge, Some(Some(1.0f64.to_bits())));
        assert!(stream(&s[..s.len() - 1]).is_err());
    }
}
