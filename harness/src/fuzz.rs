//! Glue between libFuzzer and the properties (same decode + run + oracle code as `pv run`).

use std::sync::OnceLock;

use crate::engine::{load_known, run_case, CaseResult, KnownFinding, Property};

struct Ctx {
    prop: Box<dyn Property>,
    known: Vec<KnownFinding>,
}

static CTX: OnceLock<Ctx> = OnceLock::new();

pub fn one(data: &[u8]) {
    let ctx = CTX.get_or_init(|| {
        let id = std::env::var("PV_FUZZ_PROP").expect("PV_FUZZ_PROP must name the property");
        let prop = crate::props::by_id(&id).expect("unknown property");
        let known = load_known(&id);
        // the properties contain catch_unwind; keep libFuzzer's output readable
        std::panic::set_hook(Box::new(|info| {
            let msg = info.to_string();
            if msg.contains("PV-VIOLATION") {
                eprintln!("{}", msg);
            }
        }));
        Ctx { prop, known }
    });
    match run_case(ctx.prop.as_ref(), data, &ctx.known, None) {
        CaseResult::Fail { sig, detail } => {
            eprintln!("PV-VIOLATION property={} signature={} :: {}", ctx.prop.id(), sig, detail);
            // abort so that libFuzzer saves the input (a panic would be swallowed by catch_unwind users)
            std::process::abort();
        }
        _ => {}
    }
}
