use pv::engine::{replay_file, run_property, RunOpts, Tier};

fn usage() -> ! {
    eprintln!("usage: pv run <ID> [--tier quick|thorough] [--seed N] [--jobs J] [--cases N]\n       pv replay <ID> <file>\n       pv list");
    std::process::exit(2)
}

fn main() {
    let args: Vec<String> = std::env::args().skip(1).collect();
    if args.is_empty() {
        usage();
    }
    match args[0].as_str() {
        "list" => {
            for p in pv::props::all() {
                println!("{}", p.id());
            }
        }
        "run" => {
            if args.len() < 2 {
                usage();
            }
            let id = &args[1];
            let mut tier = match std::env::var("VERIF_TIER").ok().as_deref() {
                Some("thorough") => Tier::Thorough,
                _ => Tier::Quick,
            };
            let mut seed: u64 = std::env::var("VERIF_SEED").ok().and_then(|s| s.parse::<i64>().ok()).map(|v| v as u64).unwrap_or(1);
            let mut jobs: Option<usize> = None;
            let mut cases = None;
            let mut i = 2;
            while i < args.len() {
                match args[i].as_str() {
                    "--tier" => {
                        i += 1;
                        tier = if args.get(i).map(|s| s.as_str()) == Some("thorough") { Tier::Thorough } else { Tier::Quick };
                    }
                    "--seed" => {
                        i += 1;
                        seed = args.get(i).and_then(|s| s.parse::<i64>().ok()).map(|v| v as u64).unwrap_or(1);
                    }
                    "--jobs" => {
                        i += 1;
                        jobs = args.get(i).and_then(|s| s.parse().ok());
                    }
                    "--cases" => {
                        i += 1;
                        cases = args.get(i).and_then(|s| s.parse().ok());
                    }
                    _ => usage(),
                }
                i += 1;
            }
            let Some(p) = pv::props::by_id(id) else {
                eprintln!("unknown property {}", id);
                std::process::exit(2);
            };
            let jobs = jobs.unwrap_or(match tier {
                Tier::Quick => 8,
                Tier::Thorough => 16,
            });
            // seed is reported in the evidence as a signed-safe integer
            let seed = seed & 0x7fff_ffff_ffff_ffff;
            let code = run_property(p.as_ref(), &RunOpts { tier, seed, jobs, cases_override: cases });
            std::process::exit(code);
        }
        "seeds" => {
            // pv seeds <ID> <dir> <n> [seed]
            let Some(p) = args.get(1).and_then(|i| pv::props::by_id(i)) else { usage() };
            let dir = std::path::PathBuf::from(args.get(2).cloned().unwrap_or_else(|| usage()));
            let n: u32 = args.get(3).and_then(|s| s.parse().ok()).unwrap_or(64);
            let seed: u64 = args.get(4).and_then(|s| s.parse().ok()).unwrap_or(1);
            pv::engine::write_seeds(p.as_ref(), &dir, n, seed);
        }
        "c07-digest" => {
            let seed: u64 = args.get(1).and_then(|s| s.parse().ok()).unwrap_or(1);
            let n: usize = args.get(2).and_then(|s| s.parse().ok()).unwrap_or(10);
            for (_, h) in pv::props::c07::digest_batch(seed, n) {
                println!("{}", h);
            }
        }
        "replay" => {
            if args.len() < 3 {
                usage();
            }
            let Some(p) = pv::props::by_id(&args[1]) else {
                eprintln!("unknown property {}", args[1]);
                std::process::exit(2);
            };
            std::process::exit(replay_file(p.as_ref(), std::path::Path::new(&args[2])));
        }
        _ => usage(),
    }
}
