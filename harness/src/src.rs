//! `Src`: the byte reader every case is decoded with.
//!
//! A case is a byte string. Every choice is monotone in the byte values (smaller bytes give
//! simpler choices) and once the bytes run out every call returns the simplest choice, so any
//! prefix of a case is a valid, simpler case: proptest shrinks bytes, libFuzzer mutates bytes
//! and a replay file is the bytes.
//!
//! The reader also folds every *decoded* choice into a running hash (`key()`), which is the
//! canonical identity of the decoded case (two byte strings that decode to the same choices
//! have the same key). The engine uses it to count distinct cases.

pub struct Src<'a> {
    data: &'a [u8],
    pos: usize,
    key: u64,
}

const FNV_OFF: u64 = 0xcbf29ce484222325;
const FNV_PRIME: u64 = 0x100000001b3;

impl<'a> Src<'a> {
    pub fn new(data: &'a [u8]) -> Self {
        Src { data, pos: 0, key: FNV_OFF }
    }

    #[inline]
    fn mix(&mut self, v: u64) {
        let mut k = self.key;
        for b in v.to_le_bytes() {
            k ^= b as u64;
            k = k.wrapping_mul(FNV_PRIME);
        }
        self.key = k;
    }

    #[inline]
    fn raw(&mut self) -> u8 {
        let b = if self.pos < self.data.len() { self.data[self.pos] } else { 0 };
        self.pos += 1;
        b
    }

    /// Fold an externally computed hash into the case key.
    pub fn mix_external(&mut self, v: u64) {
        self.mix(v);
    }

    /// The whole underlying case.
    pub fn data(&self) -> &'a [u8] {
        self.data
    }

    /// One raw byte (hashed into the key).
    pub fn byte(&mut self) -> u8 {
        let b = self.raw();
        self.mix(b as u64);
        b
    }

    /// Number of bytes consumed so far (may exceed the input length).
    pub fn consumed(&self) -> usize {
        self.pos
    }

    /// True when the input has been used up (further choices are all "simplest").
    pub fn exhausted(&self) -> bool {
        self.pos >= self.data.len()
    }

    pub fn key(&self) -> u64 {
        self.key
    }

    /// Uniform-ish index in `0..n`, monotone in the bytes. `n == 0` returns 0.
    pub fn below(&mut self, n: usize) -> usize {
        if n <= 1 {
            return 0;
        }
        let r = if n <= 256 {
            let b = self.raw() as usize;
            (b * n) >> 8
        } else {
            let hi = self.raw() as usize;
            let lo = self.raw() as usize;
            let v = (hi << 8) | lo;
            (v * n.min(65536)) >> 16
        };
        self.mix(r as u64);
        r
    }

    /// Inclusive range.
    pub fn range(&mut self, lo: usize, hi: usize) -> usize {
        lo + self.below(hi - lo + 1)
    }

    /// True with probability p/256: true iff byte >= 256 - p, so a zero byte (and exhausted
    /// input) is the uninteresting `false` branch unless p = 256.
    pub fn chance(&mut self, p: u32) -> bool {
        let b = self.raw() as u32;
        let r = b + p >= 256;
        self.mix(r as u64);
        r
    }

    pub fn pick<'b, T>(&mut self, pool: &'b [T]) -> &'b T {
        let i = self.below(pool.len());
        &pool[i]
    }

    pub fn u64raw(&mut self) -> u64 {
        let mut v = 0u64;
        for _ in 0..8 {
            v = (v << 8) | self.raw() as u64;
        }
        self.mix(v);
        v
    }

    pub fn u32raw(&mut self) -> u32 {
        let mut v = 0u32;
        for _ in 0..4 {
            v = (v << 8) | self.raw() as u32;
        }
        self.mix(v as u64);
        v
    }

    /// An f64 drawn from every class; `bounds` lets the caller over-represent values that sit
    /// on or next to interesting thresholds (bucket bounds).
    pub fn f64v(&mut self, bounds: &[f64]) -> f64 {
        let class = self.below(32);
        let v = match class {
            0 => 0.0,
            1 => 1.0,
            2 => 2.0,
            3 => -1.0,
            4 => 0.5,
            5 => 0.25,
            6 => 3.0,
            7 => 10.0,
            8 => -0.0,
            9 => 0.1,
            10 => 1e21,
            11 => 1e-7,
            12 => 123456789.125,
            13 => f64::MIN_POSITIVE,
            14 => -f64::MIN_POSITIVE,
            15 => f64::from_bits(1), // smallest subnormal
            16 => -f64::from_bits(1),
            17 => f64::MAX,
            18 => f64::MIN,
            19 => f64::INFINITY,
            20 => f64::NEG_INFINITY,
            21 => f64::NAN,
            22 => 9007199254740993.0, // 2^53+1 (rounds)
            23 => 1e300,
            24 | 25 | 26 if !bounds.is_empty() => {
                let b = bounds[self.below(bounds.len())];
                match class {
                    24 => b,
                    25 => next_up(b),
                    _ => next_down(b),
                }
            }
            27 => (self.below(2001) as f64 - 1000.0) / 8.0,
            28 => self.below(65536) as f64,
            29 => -(self.below(65536) as f64) / 1024.0,
            _ => f64::from_bits(self.u64raw()),
        };
        self.mix(v.to_bits());
        v
    }

    /// A small non-negative exactly representable number (sums of a few of them are exact).
    pub fn small_dyadic(&mut self) -> f64 {
        self.below(64) as f64 / 4.0
    }

    /// Concatenation of 0..=max_frag fragments from `pool`.
    pub fn text(&mut self, pool: &[&str], max_frag: usize) -> String {
        let n = self.below(max_frag + 1);
        let mut s = String::new();
        for _ in 0..n {
            let f: &str = *self.pick(pool);
            s.push_str(f);
        }
        // beyond the hand-written pools: now and then an arbitrary Unicode scalar value
        if self.chance(12) {
            let u = self.u32raw() % 0x11_0000;
            if let Some(c) = char::from_u32(u) {
                s.push(c);
            }
        }
        s
    }

    /// A permutation of 0..n drawn from the bytes (identity when bytes are zero).
    pub fn perm(&mut self, n: usize) -> Vec<usize> {
        let mut v: Vec<usize> = (0..n).collect();
        for i in 0..n {
            let j = i + self.below(n - i);
            v.swap(i, j);
        }
        v
    }
}

pub fn next_up(x: f64) -> f64 {
    if x.is_nan() || x == f64::INFINITY {
        return x;
    }
    if x == 0.0 {
        return f64::from_bits(1);
    }
    let b = x.to_bits();
    if x > 0.0 {
        f64::from_bits(b + 1)
    } else {
        f64::from_bits(b - 1)
    }
}

pub fn next_down(x: f64) -> f64 {
    -next_up(-x)
}

#[cfg(test)]
mod tests {
    use super::*;
    #[test]
    fn below_monotone_and_exhausted_is_zero() {
        let mut s = Src::new(&[]);
        assert_eq!(s.below(7), 0);
        assert!(!s.chance(200));
        let mut prev = 0;
        for b in 0..=255u8 {
            let d = [b];
            let mut s = Src::new(&d);
            let r = s.below(10);
            assert!(r >= prev && r < 10);
            prev = r;
        }
        assert_eq!(prev, 9);
    }
    #[test]
    fn ulps() {
        assert!(next_up(1.0) > 1.0);
        assert!(next_down(1.0) < 1.0);
        assert_eq!(next_down(next_up(1.0)), 1.0);
        assert!(next_up(-1.0) > -1.0);
    }
}
