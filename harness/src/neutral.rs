//! Neutral (library-independent) records of metric families, read through the public getters that
//! the protobuf-backed and the plain data model share. Oracles compare these, never library types.
//! This file is also compiled into the `--no-default-features` executor of C16 via #[path].

use prometheus::proto::{Metric, MetricFamily, MetricType};
#[allow(unused_imports)]
use prometheus::proto;

#[derive(Clone, Copy, Debug, PartialEq, Eq, PartialOrd, Ord, Hash)]
pub enum NType {
    Counter,
    Gauge,
    Summary,
    Untyped,
    Histogram,
}

impl NType {
    pub fn text(self) -> &'static str {
        match self {
            NType::Counter => "counter",
            NType::Gauge => "gauge",
            NType::Summary => "summary",
            NType::Untyped => "untyped",
            NType::Histogram => "histogram",
        }
    }
    pub fn from_lib(t: MetricType) -> NType {
        match t {
            MetricType::COUNTER => NType::Counter,
            MetricType::GAUGE => NType::Gauge,
            MetricType::SUMMARY => NType::Summary,
            MetricType::UNTYPED => NType::Untyped,
            MetricType::HISTOGRAM => NType::Histogram,
        }
    }
    pub fn to_lib(self) -> MetricType {
        match self {
            NType::Counter => MetricType::COUNTER,
            NType::Gauge => MetricType::GAUGE,
            NType::Summary => MetricType::SUMMARY,
            NType::Untyped => MetricType::UNTYPED,
            NType::Histogram => MetricType::HISTOGRAM,
        }
    }
}

#[derive(Clone, Debug)]
pub enum NValue {
    Counter(f64),
    Gauge(f64),
    Untyped,
    Histogram { count: u64, sum: f64, buckets: Vec<(f64, u64)> },
    Summary { count: u64, sum: f64, quantiles: Vec<(f64, f64)> },
}

#[derive(Clone, Debug)]
pub struct NSample {
    pub labels: Vec<(String, String)>,
    pub value: NValue,
    pub ts: i64,
}

#[derive(Clone, Debug)]
pub struct NFamily {
    pub name: String,
    pub help: String,
    pub ty: NType,
    pub samples: Vec<NSample>,
}

pub fn feq(a: f64, b: f64) -> bool {
    (a.is_nan() && b.is_nan()) || a.to_bits() == b.to_bits()
}

/// Bit-exact comparison (NaN payloads included).
pub fn fbits(a: f64, b: f64) -> bool {
    a.to_bits() == b.to_bits()
}

impl NValue {
    pub fn same(&self, o: &NValue, nan_any: bool) -> bool {
        let eq = |a: f64, b: f64| if nan_any { feq(a, b) } else { fbits(a, b) };
        match (self, o) {
            (NValue::Counter(a), NValue::Counter(b)) => eq(*a, *b),
            (NValue::Gauge(a), NValue::Gauge(b)) => eq(*a, *b),
            (NValue::Untyped, NValue::Untyped) => true,
            (
                NValue::Histogram { count: c1, sum: s1, buckets: b1 },
                NValue::Histogram { count: c2, sum: s2, buckets: b2 },
            ) => {
                c1 == c2
                    && eq(*s1, *s2)
                    && b1.len() == b2.len()
                    && b1.iter().zip(b2).all(|(x, y)| eq(x.0, y.0) && x.1 == y.1)
            }
            (
                NValue::Summary { count: c1, sum: s1, quantiles: q1 },
                NValue::Summary { count: c2, sum: s2, quantiles: q2 },
            ) => {
                c1 == c2
                    && eq(*s1, *s2)
                    && q1.len() == q2.len()
                    && q1.iter().zip(q2).all(|(x, y)| eq(x.0, y.0) && eq(x.1, y.1))
            }
            _ => false,
        }
    }
}

impl NSample {
    pub fn same(&self, o: &NSample, nan_any: bool) -> bool {
        self.labels == o.labels && self.ts == o.ts && self.value.same(&o.value, nan_any)
    }
}

impl NFamily {
    pub fn same(&self, o: &NFamily, nan_any: bool) -> bool {
        self.name == o.name
            && self.help == o.help
            && self.ty == o.ty
            && self.samples.len() == o.samples.len()
            && self.samples.iter().zip(&o.samples).all(|(a, b)| a.same(b, nan_any))
    }
}

pub fn families_same(a: &[NFamily], b: &[NFamily], nan_any: bool) -> bool {
    a.len() == b.len() && a.iter().zip(b).all(|(x, y)| x.same(y, nan_any))
}

pub fn labels_of(m: &Metric) -> Vec<(String, String)> {
    m.get_label().iter().map(|lp| (lp.name().to_string(), lp.value().to_string())).collect()
}

/// Read a sample's payload *as the family's declared type says* (this is what the encoders do).
pub fn value_of(m: &Metric, ty: NType) -> NValue {
    match ty {
        NType::Counter => NValue::Counter(counter_value(m)),
        NType::Gauge => NValue::Gauge(gauge_value(m)),
        NType::Untyped => NValue::Untyped,
        NType::Histogram => {
            let h = m.get_histogram();
            NValue::Histogram {
                count: h.get_sample_count(),
                sum: h.get_sample_sum(),
                buckets: h.get_bucket().iter().map(|b| (b.upper_bound(), b.cumulative_count())).collect(),
            }
        }
        NType::Summary => {
            let s = m.get_summary();
            NValue::Summary {
                count: s.sample_count(),
                sum: s.sample_sum(),
                quantiles: s.get_quantile().iter().map(|q| (q.quantile(), q.value())).collect(),
            }
        }
    }
}

#[cfg(feature = "pb")]
pub fn counter_value(m: &Metric) -> f64 {
    m.get_counter().value()
}
#[cfg(feature = "pb")]
pub fn gauge_value(m: &Metric) -> f64 {
    m.get_gauge().value()
}
#[cfg(not(feature = "pb"))]
pub fn counter_value(m: &Metric) -> f64 {
    m.get_counter().get_value()
}
#[cfg(not(feature = "pb"))]
pub fn gauge_value(m: &Metric) -> f64 {
    m.get_gauge().get_value()
}

pub fn neutral(mf: &MetricFamily) -> NFamily {
    let ty = NType::from_lib(mf.get_field_type());
    NFamily {
        name: mf.name().to_string(),
        help: mf.help().to_string(),
        ty,
        samples: mf
            .get_metric()
            .iter()
            .map(|m| NSample { labels: labels_of(m), value: value_of(m, ty), ts: m.timestamp_ms() })
            .collect(),
    }
}

pub fn neutral_all(mfs: &[MetricFamily]) -> Vec<NFamily> {
    mfs.iter().map(neutral).collect()
}

/// Build a library family from a neutral one through the public setters (what a custom collector
/// can supply).
pub fn to_lib(f: &NFamily) -> MetricFamily {
    let mut mf = MetricFamily::default();
    mf.set_name(f.name.clone());
    mf.set_help(f.help.clone());
    mf.set_field_type(f.ty.to_lib());
    let mut ms = Vec::new();
    for s in &f.samples {
        let mut m = Metric::default();
        let mut lps = Vec::new();
        for (n, v) in &s.labels {
            let mut lp = proto::LabelPair::default();
            lp.set_name(n.clone());
            lp.set_value(v.clone());
            lps.push(lp);
        }
        m.set_label(lps);
        if s.ts != 0 {
            m.set_timestamp_ms(s.ts);
        }
        match &s.value {
            NValue::Counter(v) => {
                let mut c = proto::Counter::default();
                c.set_value(*v);
                m.set_counter(c);
            }
            NValue::Gauge(v) => {
                let mut g = proto::Gauge::default();
                g.set_value(*v);
                m.set_gauge(g);
            }
            NValue::Untyped => {}
            NValue::Histogram { count, sum, buckets } => {
                let mut h = proto::Histogram::default();
                h.set_sample_count(*count);
                h.set_sample_sum(*sum);
                let mut bs = Vec::new();
                for (ub, cc) in buckets {
                    let mut b = proto::Bucket::default();
                    b.set_upper_bound(*ub);
                    b.set_cumulative_count(*cc);
                    bs.push(b);
                }
                h.set_bucket(bs);
                m.set_histogram(h);
            }
            NValue::Summary { count, sum, quantiles } => {
                let mut su = proto::Summary::default();
                su.set_sample_count(*count);
                su.set_sample_sum(*sum);
                let mut qs = Vec::new();
                for (q, v) in quantiles {
                    let mut qq = proto::Quantile::default();
                    qq.set_quantile(*q);
                    qq.set_value(*v);
                    qs.push(qq);
                }
                su.set_quantile(qs);
                m.set_summary(su);
            }
        }
        ms.push(m);
    }
    mf.set_metric(ms);
    mf
}

pub fn show_f64(v: f64) -> String {
    if v.is_nan() {
        format!("NaN({:#x})", v.to_bits())
    } else {
        format!("{:?}", v)
    }
}

pub fn show_families(fs: &[NFamily]) -> String {
    let mut out = String::new();
    for f in fs {
        out.push_str(&format!("{}[{} help={:?}]", f.name, f.ty.text(), f.help));
        for s in &f.samples {
            out.push_str(&format!(" {{{:?} ts={} {:?}}}", s.labels, s.ts, s.value));
        }
        out.push_str("; ");
    }
    out
}
