//! C17 — fallible APIs report bad input as Err and do not panic.

use std::collections::HashMap;
use std::io::Write;
use std::panic::{catch_unwind, AssertUnwindSafe};

use prometheus::core::{Collector, Desc};
use prometheus::{
    exponential_buckets, linear_buckets, Counter, CounterVec, Encoder, Gauge, GaugeVec, Histogram, HistogramOpts, HistogramVec,
    IntCounter, IntCounterVec, IntGauge, IntGaugeVec, Opts, PullingGauge, Registry, TextEncoder,
};

use crate::engine::{fail, Budget, Property, Report, Tier, Verdict};
use crate::genfam::{gen_custom, GenOpts};
use crate::neutral::{to_lib, NFamily, NType};
use crate::pools::SeededState;
use crate::props::c08::accept;
use crate::props::c09::{label_name_ok, metric_name_ok};
use crate::src::Src;

pub struct C17;

const CHARS: &[char] = &[
    'a', 'Z', '_', '0', ':', '9', ' ', '-', '.', '"', '\\', '\n', '\r', '\0', '{', '}', '=', ',', 'é', 'ß', 'а', '٣', 'Ａ', '１', '😀',
    '\u{ff}', '\u{7f}', '\u{2028}', '$', '#',
];
const WORDS: &[&str] = &["", "a", "le", "m", "x_y", "__name__", "quantile", "total", "A1"];

pub fn arb_string(src: &mut Src, max: usize) -> String {
    match src.below(4) {
        0 => src.pick(WORDS).to_string(),
        1 => {
            // a valid identifier
            let n = 1 + src.below(6);
            let mut s = String::new();
            for i in 0..n {
                let c = *src.pick(&['a', 'b', '_', 'Z', 'x', '0', '7']);
                s.push(if i == 0 && c.is_ascii_digit() { 'd' } else { c });
            }
            s
        }
        2 => {
            let n = src.below(max.min(12) + 1);
            (0..n).map(|_| *src.pick(CHARS)).collect()
        }
        _ => {
            let n = src.below(max + 1);
            let mut s: String = (0..n)
                .map(|_| {
                    let v = src.u32raw() % 0x11_0000;
                    char::from_u32(v).unwrap_or('\u{fffd}')
                })
                .collect();
            if src.chance(10) {
                // rarely: a long run that crosses typical byte thresholds (127/128, 255/256, 1 KiB, 4 KiB), ASCII or multi-byte,
                // followed by one more arbitrary character
                let c = *src.pick(&['a', '_', 'é', '😀', '\u{800}']);
                let k = [100usize, 126, 127, 128, 254, 255, 256, 1000, 1023, 1024, 4095, 5000][src.below(12)] + src.below(4);
                for _ in 0..k / c.len_utf8() {
                    s.push(c);
                }
                for _ in 0..src.below(4) {
                    s.push('x');
                }
                s.push(char::from_u32(src.u32raw() % 0x11_0000).unwrap_or('z'));
            }
            s
        }
    }
}

struct MultiDesc(Vec<Desc>);
impl Collector for MultiDesc {
    fn desc(&self) -> Vec<&Desc> {
        self.0.iter().collect()
    }
    fn collect(&self) -> Vec<prometheus::proto::MetricFamily> {
        vec![]
    }
}

struct FailingWriter {
    left: usize,
    refused: bool,
}
impl Write for FailingWriter {
    fn write(&mut self, buf: &[u8]) -> std::io::Result<usize> {
        if buf.len() > self.left {
            self.refused = true;
            return Err(std::io::Error::new(std::io::ErrorKind::Other, "writer full"));
        }
        self.left -= buf.len();
        Ok(buf.len())
    }
    fn flush(&mut self) -> std::io::Result<()> {
        Ok(())
    }
}

/// What the oracle expects from a call.
enum Expect {
    Ok,
    Err,
    Any,
}

struct CallOutcome {
    func: &'static str,
    args: String,
    expect: Expect,
    got: Result<Result<(), String>, String>, // outer Err = panic message
}

fn guarded<F: FnOnce() -> Result<(), String>>(f: F) -> Result<Result<(), String>, String> {
    match catch_unwind(AssertUnwindSafe(f)) {
        Ok(r) => Ok(r),
        Err(e) => Err(if let Some(s) = e.downcast_ref::<&str>() {
            s.to_string()
        } else if let Some(s) = e.downcast_ref::<String>() {
            s.clone()
        } else {
            "<non-string panic>".into()
        }),
    }
}

fn es<T>(r: Result<T, prometheus::Error>) -> Result<(), String> {
    r.map(|_| ()).map_err(|e| format!("{:?}", e).chars().take(120).collect())
}

fn gen_opts(src: &mut Src, allow_vars: bool) -> (Opts, bool, String) {
    let ns = if src.chance(60) { arb_string(src, 16) } else { String::new() };
    let sub = if src.chance(60) { arb_string(src, 16) } else { String::new() };
    let name = arb_string(src, 64);
    let help = if src.chance(30) { String::new() } else { arb_string(src, 64) };
    let mut o = Opts::new(name.clone(), help.clone()).namespace(ns.clone()).subsystem(sub.clone());
    let mut labels = vec![];
    for _ in 0..src.below(4) {
        let k = arb_string(src, 12);
        o = o.const_label(k.clone(), arb_string(src, 12));
        if !labels.contains(&k) {
            labels.push(k);
        }
    }
    let mut vars = vec![];
    if allow_vars {
        for _ in 0..src.below(3) {
            let k = arb_string(src, 12);
            vars.push(k);
        }
        o = o.variable_labels(vars.clone());
    }
    let fqn = if name.is_empty() {
        String::new()
    } else {
        let mut p: Vec<&str> = vec![];
        if !ns.is_empty() {
            p.push(&ns);
        }
        if !sub.is_empty() {
            p.push(&sub);
        }
        p.push(&name);
        p.join("_")
    };
    let mut all = labels.clone();
    all.extend(vars.iter().cloned());
    let mut sorted = all.clone();
    sorted.sort();
    let dup = sorted.windows(2).any(|w| w[0] == w[1]);
    let valid = metric_name_ok(&fqn) && !help.is_empty() && all.iter().all(|l| label_name_ok(l)) && !dup;
    let d = format!("ns={:?} sub={:?} name={:?} help={:?} const={:?} var={:?}", ns, sub, name, help, labels, vars);
    (o, valid, d)
}

fn one_call(src: &mut Src) -> CallOutcome {
    let which = src.below(24);
    match which {
        // ---- scalar constructors (variable labels left empty: documented requirement)
        0..=4 => {
            let (o, valid, d) = gen_opts(src, false);
            let has_le = o.const_labels.contains_key("le");
            let (func, got, expect): (&'static str, _, _) = match which {
                0 => ("Counter::with_opts", guarded(|| es(Counter::with_opts(o))), valid),
                1 => ("IntCounter::with_opts", guarded(|| es(IntCounter::with_opts(o))), valid),
                2 => ("Gauge::with_opts", guarded(|| es(Gauge::with_opts(o))), valid),
                3 => ("IntGauge::with_opts", guarded(|| es(IntGauge::with_opts(o))), valid),
                _ => {
                    let buckets: Vec<f64> = (0..src.below(5)).map(|_| src.f64v(&[])).collect();
                    let ok = valid && !has_le && accept(&buckets).is_some();
                    let ho = HistogramOpts::from(o).buckets(buckets);
                    ("Histogram::with_opts", guarded(|| es(Histogram::with_opts(ho))), ok)
                }
            };
            CallOutcome { func, args: d, expect: if expect { Expect::Ok } else { Expect::Err }, got }
        }
        // ---- vector constructors
        5..=9 => {
            let (o, valid0, d) = gen_opts(src, false);
            let names: Vec<String> = (0..src.below(4)).map(|_| arb_string(src, 12)).collect();
            let nrefs: Vec<&str> = names.iter().map(|s| s.as_str()).collect();
            let mut all: Vec<String> = o.const_labels.keys().cloned().collect();
            all.extend(names.iter().cloned());
            let mut sorted = all.clone();
            sorted.sort();
            let dup = sorted.windows(2).any(|w| w[0] == w[1]);
            let valid = valid0 && names.iter().all(|n| label_name_ok(n)) && !dup;
            let has_le = all.iter().any(|l| l == "le");
            // zero label names: the statement is silent -> Any
            let exp = |ok: bool| if names.is_empty() && ok { Expect::Any } else if ok { Expect::Ok } else { Expect::Err };
            let d = format!("{} names={:?}", d, names);
            let (func, got, expect): (&'static str, _, _) = match which {
                5 => ("CounterVec::new", guarded(|| es(CounterVec::new(o, &nrefs))), exp(valid)),
                6 => ("IntCounterVec::new", guarded(|| es(IntCounterVec::new(o, &nrefs))), exp(valid)),
                7 => ("GaugeVec::new", guarded(|| es(GaugeVec::new(o, &nrefs))), exp(valid)),
                8 => ("IntGaugeVec::new", guarded(|| es(IntGaugeVec::new(o, &nrefs))), exp(valid)),
                _ => {
                    // bucket validity of a vector may be reported at construction or at the first child: Any when only buckets are bad
                    let buckets: Vec<f64> = (0..src.below(4)).map(|_| src.f64v(&[])).collect();
                    let bok = accept(&buckets).is_some();
                    let ho = HistogramOpts::from(o).buckets(buckets);
                    let e = if !(valid && !has_le) { Expect::Err } else if !bok || names.is_empty() { Expect::Any } else { Expect::Ok };
                    ("HistogramVec::new", guarded(|| es(HistogramVec::new(ho, &nrefs))), e)
                }
            };
            CallOutcome { func, args: d, expect, got }
        }
        10 => {
            let name = arb_string(src, 64);
            let help = if src.chance(30) { String::new() } else { arb_string(src, 32) };
            let ok = metric_name_ok(&name) && !help.is_empty();
            let d = format!("name={:?} help={:?}", name, help);
            CallOutcome {
                func: "PullingGauge::new",
                args: d,
                expect: if ok { Expect::Ok } else { Expect::Err },
                got: guarded(|| es(PullingGauge::new(name, help, Box::new(|| 0.0)))),
            }
        }
        11 => {
            let name = arb_string(src, 64);
            let help = if src.chance(30) { String::new() } else { arb_string(src, 32) };
            let vars: Vec<String> = (0..src.below(4)).map(|_| arb_string(src, 12)).collect();
            let mut cm: HashMap<String, String> = HashMap::new();
            for _ in 0..src.below(4) {
                cm.insert(arb_string(src, 12), arb_string(src, 12));
            }
            let mut all: Vec<String> = cm.keys().cloned().collect();
            all.extend(vars.iter().cloned());
            let mut sorted = all.clone();
            sorted.sort();
            let dup = sorted.windows(2).any(|w| w[0] == w[1]);
            let ok = metric_name_ok(&name) && !help.is_empty() && all.iter().all(|l| label_name_ok(l)) && !dup;
            let d = format!("name={:?} help={:?} vars={:?} const={:?}", name, help, vars, cm.keys().collect::<Vec<_>>());
            CallOutcome {
                func: "Desc::new",
                args: d,
                expect: if ok { Expect::Ok } else { Expect::Err },
                got: guarded(|| es(Desc::new(name, help, vars, cm))),
            }
        }
        // ---- child lookup / removal with arbitrary cardinality and names
        12..=15 => {
            let nlab = 1 + src.below(3);
            let lnames = &["a", "b", "c"][..nlab];
            let is_h = src.chance(100);
            let cv = CounterVec::new(Opts::new("v", "h"), lnames).unwrap();
            let hv = HistogramVec::new(HistogramOpts::new("hv", "h"), lnames).unwrap();
            let nvals = src.below(7);
            let vals: Vec<String> = (0..nvals).map(|_| arb_string(src, 16)).collect();
            let keys: Vec<String> = (0..nvals)
                .map(|i| if src.chance(160) && i < nlab { lnames[i].to_string() } else { arb_string(src, 8) })
                .collect();
            let mut map: HashMap<&str, &str, SeededState> = HashMap::with_hasher(SeededState(src.byte() as u64));
            for (k, v) in keys.iter().zip(&vals) {
                map.insert(k.as_str(), v.as_str());
            }
            // make a child exist sometimes
            if src.chance(128) && nvals == nlab {
                let _ = cv.get_metric_with_label_values(&vals);
                let _ = hv.get_metric_with_label_values(&vals);
            }
            let slice_ok = nvals == nlab;
            let map_ok = map.len() == nlab && lnames.iter().all(|n| map.contains_key(n));
            let d = format!("labels={:?} vals={:?} keys={:?} hist={}", lnames, vals, keys, is_h);
            match which {
                12 => CallOutcome {
                    func: "get_metric_with_label_values",
                    args: d,
                    expect: if slice_ok { Expect::Ok } else { Expect::Err },
                    got: if is_h { guarded(|| es(hv.get_metric_with_label_values(&vals))) } else { guarded(|| es(cv.get_metric_with_label_values(&vals))) },
                },
                13 => CallOutcome {
                    func: "get_metric_with",
                    args: d,
                    expect: if map_ok { Expect::Ok } else { Expect::Err },
                    got: if is_h { guarded(|| es(hv.get_metric_with(&map))) } else { guarded(|| es(cv.get_metric_with(&map))) },
                },
                14 => CallOutcome {
                    func: "remove_label_values",
                    args: d,
                    expect: if slice_ok { Expect::Any } else { Expect::Err },
                    got: {
                        if src.chance(80) {
                            // the local vector forms
                            let refs: Vec<&str> = vals.iter().map(|s| s.as_str()).collect();
                            if is_h {
                                let mut l = hv.local();
                                guarded(|| es(l.remove_label_values(&refs)))
                            } else {
                                let mut l = cv.local();
                                guarded(|| es(l.remove_label_values(&refs)))
                            }
                        } else if is_h {
                            guarded(|| es(hv.remove_label_values(&vals)))
                        } else {
                            guarded(|| es(cv.remove_label_values(&vals)))
                        }
                    },
                },
                _ => CallOutcome {
                    func: "remove",
                    args: d,
                    expect: if map_ok { Expect::Any } else { Expect::Err },
                    got: if is_h { guarded(|| es(hv.remove(&map))) } else { guarded(|| es(cv.remove(&map))) },
                },
            }
        }
        // ---- registry
        16 => {
            let prefix = match src.below(3) {
                0 => None,
                _ => Some(arb_string(src, 16)),
            };
            let labels = if src.chance(128) {
                let mut m = HashMap::new();
                for _ in 0..src.below(4) {
                    m.insert(arb_string(src, 12), arb_string(src, 12));
                }
                Some(m)
            } else {
                None
            };
            let d = format!("prefix={:?} labels={:?}", prefix, labels);
            let exp = if prefix.as_deref() == Some("") { Expect::Err } else { Expect::Any };
            CallOutcome { func: "Registry::new_custom", args: d, expect: exp, got: guarded(|| es(Registry::new_custom(prefix, labels))) }
        }
        17 | 18 => {
            // register / unregister of arbitrary collectors, including multi-descriptor ones with
            // zero, repeated or mutually inconsistent descriptors; explicit and default registry
            let nd = src.below(4);
            let mut descs = vec![];
            for _ in 0..nd {
                let name = *src.pick(&["m", "n", "m_x"]);
                let help = *src.pick(&["h", "g"]);
                let mut cm = HashMap::new();
                if src.chance(128) {
                    cm.insert("k".to_string(), src.pick(&["1", "2"]).to_string());
                }
                let vars = if src.chance(80) { vec!["v".to_string()] } else { vec![] };
                if let Ok(d) = Desc::new(name.to_string(), help.to_string(), vars, cm) {
                    descs.push(d);
                }
            }
            let d = format!("descs={:?}", descs.iter().map(|d| (&d.fq_name, &d.help, d.id)).collect::<Vec<_>>());
            let use_default = src.chance(60);
            let pre = src.chance(128);
            let func: &'static str = match (which, use_default) {
                (17, false) => "Registry::register",
                (17, true) => "register (default registry)",
                (_, false) => "Registry::unregister",
                (_, true) => "unregister (default registry)",
            };
            let got = if use_default {
                // unique names so that concurrent cases do not interfere; always cleaned up
                static CTR: std::sync::atomic::AtomicU64 = std::sync::atomic::AtomicU64::new(0);
                let n = CTR.fetch_add(1, std::sync::atomic::Ordering::Relaxed);
                let dd: Vec<Desc> = descs
                    .iter()
                    .map(|x| {
                        let cm: HashMap<String, String> =
                            x.const_label_pairs.iter().map(|l| (l.name().to_string(), l.value().to_string())).collect();
                        Desc::new(format!("c17_{}_{}", n, x.fq_name), x.help.clone(), x.variable_labels.clone(), cm).unwrap()
                    })
                    .collect();
                guarded(|| {
                    if which == 17 {
                        let r = es(prometheus::register(Box::new(MultiDesc(dd.clone()))));
                        let _ = prometheus::unregister(Box::new(MultiDesc(dd.clone())));
                        r
                    } else {
                        if pre {
                            let _ = prometheus::register(Box::new(MultiDesc(dd.clone())));
                        }
                        es(prometheus::unregister(Box::new(MultiDesc(dd.clone()))))
                    }
                })
            } else {
                let reg = Registry::new();
                if pre {
                    let _ = reg.register(Box::new(Counter::new("m", "h").unwrap()));
                }
                guarded(|| {
                    if which == 17 {
                        es(reg.register(Box::new(MultiDesc(descs.clone()))))
                    } else {
                        es(reg.unregister(Box::new(MultiDesc(descs.clone()))))
                    }
                })
            };
            CallOutcome { func, args: d, expect: Expect::Any, got }
        }
        // ---- bucket helpers
        19 => {
            let start = src.f64v(&[]);
            let width = src.f64v(&[]);
            let count = if src.chance(64) { 0 } else { src.below(4097) };
            let exp = if start.is_nan() || width.is_nan() {
                Expect::Any
            } else if count == 0 || width <= 0.0 {
                Expect::Err
            } else {
                Expect::Ok
            };
            CallOutcome {
                func: "linear_buckets",
                args: format!("start={:?} width={:?} count={}", start, width, count),
                expect: exp,
                got: guarded(|| es(linear_buckets(start, width, count))),
            }
        }
        20 => {
            let start = src.f64v(&[]);
            let factor = src.f64v(&[]);
            let count = if src.chance(64) { 0 } else { src.below(4097) };
            let exp = if start.is_nan() || factor.is_nan() {
                Expect::Any
            } else if count == 0 || start <= 0.0 || factor <= 1.0 {
                Expect::Err
            } else {
                Expect::Ok
            };
            CallOutcome {
                func: "exponential_buckets",
                args: format!("start={:?} factor={:?} count={}", start, factor, count),
                expect: exp,
                got: guarded(|| es(exponential_buckets(start, factor, count))),
            }
        }
        // ---- encoders with arbitrary families
        _ => {
            let mut fams: Vec<NFamily> = gen_custom(src, &GenOpts { allow_untyped: true, allow_empty_family: true, max_families: 4 });
            for f in fams.iter_mut() {
                if src.chance(30) {
                    f.name = arb_string(src, 16);
                }
                if src.chance(30) {
                    f.help = arb_string(src, 32);
                }
                // payload/type mismatch: what a careless custom collector supplies
                if src.chance(40) {
                    f.ty = *src.pick(&[NType::Counter, NType::Gauge, NType::Histogram, NType::Summary, NType::Untyped]);
                }
            }
            #[allow(unused_mut)]
            let mut lib: Vec<prometheus::proto::MetricFamily> = fams.iter().map(to_lib).collect();
            let bad = fams.iter().any(|f| f.name.is_empty() || f.samples.is_empty());
            #[allow(unused_mut)]
            let mut untyped = fams.iter().any(|f| f.ty == NType::Untyped);
            // a type value this build does not know (a family written by a newer client): any verdict, but no panic
            #[cfg(feature = "pb")]
            if !lib.is_empty() && src.chance(30) {
                let k = src.below(lib.len());
                let v = [5i32, 6, -1, 100, i32::MAX, i32::MIN][src.below(6)];
                lib[k].type_ = Some(protobuf::EnumOrUnknown::from_i32(v));
                untyped = true; // "Expect::Any"
            }
            let d = format!(
                "families={:?}",
                fams.iter().map(|f| (f.name.clone(), f.ty.text(), f.samples.len())).collect::<Vec<_>>()
            );
            let enc = TextEncoder::new();
            let limit = if src.chance(100) { Some(src.below(200)) } else { None };
            match which {
                21 => {
                    let mut refused = false;
                    let got = guarded(|| match limit {
                        None => es(enc.encode(&lib, &mut Vec::new())),
                        Some(k) => {
                            let mut w = FailingWriter { left: k, refused: false };
                            let r = es(enc.encode(&lib, &mut w));
                            refused = w.refused;
                            r
                        }
                    });
                    let exp = if bad || refused { Expect::Err } else if untyped { Expect::Any } else { Expect::Ok };
                    CallOutcome { func: "TextEncoder::encode", args: format!("{} writer_limit={:?}", d, limit), expect: exp, got }
                }
                22 => {
                    let two = src.chance(128);
                    let got = guarded(|| if two { es(enc.encode_to_string(&lib)) } else { es(enc.encode_utf8(&lib, &mut String::new())) });
                    let exp = if bad { Expect::Err } else if untyped { Expect::Any } else { Expect::Ok };
                    CallOutcome { func: if two { "TextEncoder::encode_to_string" } else { "TextEncoder::encode_utf8" }, args: d, expect: exp, got }
                }
                _ => pb_encode(lib, bad, limit, d),
            }
        }
    }
}

#[cfg(feature = "pb")]
fn pb_encode(lib: Vec<prometheus::proto::MetricFamily>, bad: bool, limit: Option<usize>, d: String) -> CallOutcome {
    let enc = prometheus::ProtobufEncoder::new();
    let mut refused = false;
    let got = guarded(|| match limit {
        None => es(enc.encode(&lib, &mut Vec::new())),
        Some(k) => {
            let mut w = FailingWriter { left: k, refused: false };
            let r = es(enc.encode(&lib, &mut w));
            refused = w.refused;
            r
        }
    });
    let exp = if bad || refused { Expect::Err } else { Expect::Ok };
    CallOutcome { func: "ProtobufEncoder::encode", args: format!("{} writer_limit={:?}", d, limit), expect: exp, got }
}

#[cfg(not(feature = "pb"))]
fn pb_encode(_lib: Vec<prometheus::proto::MetricFamily>, _bad: bool, _limit: Option<usize>, d: String) -> CallOutcome {
    CallOutcome { func: "ProtobufEncoder::encode (absent in this build)", args: d, expect: Expect::Any, got: Ok(Ok(())) }
}

impl Property for C17 {
    fn id(&self) -> &'static str {
        "C17"
    }
    fn rule(&self) -> &'static str {
        "case = 1-8 calls, each to one Result-returning public API (10 metric/vector constructors, Desc::new, PullingGauge::new, \
         get_metric_with_label_values, get_metric_with, remove_label_values (shared and local vectors), remove, Registry::new_custom, \
         register/unregister on a registry and on the default registry, linear_buckets, exponential_buckets, TextEncoder encode / \
         encode_utf8 / encode_to_string, ProtobufEncoder::encode) with arbitrary Unicode strings (<=64 chars; 1% carry a run of 100-5000 bytes ending near 128 / 256 / 1024 / 4096), label lists/maps of \
         cardinality 0-6, arbitrary f64 parameters, arbitrary families (every MetricType and unknown type values, payload/type mismatch, empty names, no \
         samples) and a writer failing after k bytes. Oracle: no panic; Err/Ok as the recognisers and the helpers' documentation \
         prescribe; a refused write must surface as Err. Non-trivial: at least one call returned Err. Distinct = decoded choices."
    }
    fn assumptions(&self) -> Vec<&'static str> {
        vec![
            "documented-panic entry points (with_label_values, with, inc_by with a negative value in debug builds, macros) are not called",
            "NaN parameters of the bucket helpers, zero label names for vectors and UNTYPED families are only required not to panic",
        ]
    }
    fn budget(&self, tier: Tier) -> Budget {
        match tier {
            Tier::Quick => Budget { cases: 500000, min_len: 8, max_len: 400 },
            Tier::Thorough => Budget { cases: 10000000, min_len: 8, max_len: 600 },
        }
    }

    fn run(&self, src: &mut Src, rep: &mut Report) -> Verdict {
        let ncalls = 1 + src.below(8);
        let mut log = vec![];
        let mut any_err = false;
        for _ in 0..ncalls {
            let c = one_call(src);
            match &c.got {
                Err(p) => {
                    let short: String = p.chars().take(50).collect();
                    return fail(format!("panic:{}:{}", c.func, short), format!("{}({}) panicked: {}", c.func, c.args, p));
                }
                Ok(r) => {
                    match (&c.expect, r) {
                        (Expect::Ok, Err(e)) => {
                            return fail(format!("valid-input-rejected:{}", c.func), format!("{}({}) returned Err({})", c.func, c.args, e))
                        }
                        (Expect::Err, Ok(())) => {
                            return fail(format!("invalid-input-accepted:{}", c.func), format!("{}({}) returned Ok", c.func, c.args))
                        }
                        _ => {}
                    }
                    if r.is_err() {
                        any_err = true;
                    }
                    rep.class(c.func);
                    if rep.want_sample {
                        log.push(format!("{}({}) -> {}", c.func, c.args, if r.is_ok() { "Ok".to_string() } else { format!("Err({})", r.as_ref().unwrap_err()) }));
                    }
                }
            }
        }
        rep.nontrivial = any_err;
        if any_err {
            rep.class("some-call-returned-err");
        }
        if rep.want_sample {
            rep.sample = Some(log.join(" ;; "));
        }
        Verdict::Pass
    }
}
