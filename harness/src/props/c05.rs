//! C05 — a metric vector keeps exactly one child per distinct label-value tuple.

use std::collections::{BTreeMap, HashMap};

use prometheus::core::Collector;
use prometheus::local::{LocalCounterVec, LocalHistogramVec, LocalIntCounterVec};
use prometheus::{
    CounterVec, GaugeVec, HistogramOpts, HistogramVec, IntCounterVec, IntGaugeVec, Opts,
};

use crate::engine::{fail, Budget, Property, Report, Tier, Verdict};
use crate::ensure;
use crate::neutral::{neutral, NFamily, NValue};
use crate::pools::{distinct, SeededState, CONST_LABEL_NAMES, VALID_LABEL_NAMES, VALUE_FRAGS};
use crate::src::Src;

pub struct C05;

#[derive(Clone, Copy, PartialEq, Eq, Debug)]
enum Kind {
    Counter,
    IntCounter,
    Gauge,
    IntGauge,
    Histogram,
    LocalCounter,
    LocalIntCounter,
    LocalHistogram,
}

const KINDS: &[Kind] = &[
    Kind::IntCounter,
    Kind::Counter,
    Kind::Gauge,
    Kind::IntGauge,
    Kind::Histogram,
    Kind::LocalIntCounter,
    Kind::LocalCounter,
    Kind::LocalHistogram,
];

enum AnyVec {
    C(CounterVec),
    IC(IntCounterVec),
    G(GaugeVec),
    IG(IntGaugeVec),
    H(HistogramVec),
}

enum AnyLocal {
    None,
    C(LocalCounterVec),
    IC(LocalIntCounterVec),
    H(LocalHistogramVec),
}

enum Child {
    C(prometheus::Counter),
    IC(prometheus::IntCounter),
    G(prometheus::Gauge),
    IG(prometheus::IntGauge),
    H(prometheus::Histogram),
}

impl Child {
    /// (bits, count): the value as a set of update bits, and for histograms the number of updates.
    fn read(&self) -> (f64, Option<u64>) {
        match self {
            Child::C(c) => (c.get(), None),
            Child::IC(c) => (c.get() as f64, None),
            Child::G(c) => (c.get(), None),
            Child::IG(c) => (c.get() as f64, None),
            Child::H(h) => (h.get_sample_sum(), Some(h.get_sample_count())),
        }
    }
    fn update(&self, bit: u32) {
        let v = 1u64 << bit;
        match self {
            Child::C(c) => c.inc_by(v as f64),
            Child::IC(c) => c.inc_by(v),
            Child::G(c) => c.add(v as f64),
            Child::IG(c) => c.add(v as i64),
            Child::H(h) => h.observe(v as f64),
        }
    }
}

impl AnyVec {
    fn get_slice(&self, vals: &[&str]) -> Result<Child, prometheus::Error> {
        Ok(match self {
            AnyVec::C(v) => Child::C(v.get_metric_with_label_values(vals)?),
            AnyVec::IC(v) => Child::IC(v.get_metric_with_label_values(vals)?),
            AnyVec::G(v) => Child::G(v.get_metric_with_label_values(vals)?),
            AnyVec::IG(v) => Child::IG(v.get_metric_with_label_values(vals)?),
            AnyVec::H(v) => Child::H(v.get_metric_with_label_values(vals)?),
        })
    }
    fn get_slice_owned(&self, vals: &[String]) -> Result<Child, prometheus::Error> {
        Ok(match self {
            AnyVec::C(v) => Child::C(v.get_metric_with_label_values(vals)?),
            AnyVec::IC(v) => Child::IC(v.get_metric_with_label_values(vals)?),
            AnyVec::G(v) => Child::G(v.get_metric_with_label_values(vals)?),
            AnyVec::IG(v) => Child::IG(v.get_metric_with_label_values(vals)?),
            AnyVec::H(v) => Child::H(v.get_metric_with_label_values(vals)?),
        })
    }
    fn get_map(&self, m: &HashMap<&str, &str, SeededState>) -> Result<Child, prometheus::Error> {
        Ok(match self {
            AnyVec::C(v) => Child::C(v.get_metric_with(m)?),
            AnyVec::IC(v) => Child::IC(v.get_metric_with(m)?),
            AnyVec::G(v) => Child::G(v.get_metric_with(m)?),
            AnyVec::IG(v) => Child::IG(v.get_metric_with(m)?),
            AnyVec::H(v) => Child::H(v.get_metric_with(m)?),
        })
    }
    fn remove_slice(&self, vals: &[&str]) -> Result<(), prometheus::Error> {
        match self {
            AnyVec::C(v) => v.remove_label_values(vals),
            AnyVec::IC(v) => v.remove_label_values(vals),
            AnyVec::G(v) => v.remove_label_values(vals),
            AnyVec::IG(v) => v.remove_label_values(vals),
            AnyVec::H(v) => v.remove_label_values(vals),
        }
    }
    fn remove_map(&self, m: &HashMap<&str, &str, SeededState>) -> Result<(), prometheus::Error> {
        match self {
            AnyVec::C(v) => v.remove(m),
            AnyVec::IC(v) => v.remove(m),
            AnyVec::G(v) => v.remove(m),
            AnyVec::IG(v) => v.remove(m),
            AnyVec::H(v) => v.remove(m),
        }
    }
    fn collect(&self) -> Vec<prometheus::proto::MetricFamily> {
        match self {
            AnyVec::C(v) => v.collect(),
            AnyVec::IC(v) => v.collect(),
            AnyVec::G(v) => v.collect(),
            AnyVec::IG(v) => v.collect(),
            AnyVec::H(v) => v.collect(),
        }
    }
}

/// Split `s` into `n` pieces at generated char boundaries.
fn resplit(src: &mut Src, s: &str, n: usize) -> Vec<String> {
    let chars: Vec<char> = s.chars().collect();
    let mut cuts: Vec<usize> = (0..n.saturating_sub(1)).map(|_| src.below(chars.len() + 1)).collect();
    cuts.sort();
    let mut out = vec![];
    let mut prev = 0;
    for c in cuts {
        out.push(chars[prev..c].iter().collect::<String>());
        prev = c;
    }
    out.push(chars[prev..].iter().collect::<String>());
    out
}

fn model_value(upd: &[u32]) -> f64 {
    upd.iter().map(|b| (1u64 << b) as f64).sum()
}

#[derive(Default, Clone)]
struct MChild {
    updates: Vec<u32>,
}

impl Property for C05 {
    fn id(&self) -> &'static str {
        "C05"
    }
    fn rule(&self) -> &'static str {
        "case = vector kind (5 shared + 3 local) x 1-4 label names x 0-2 constant labels x 2-12 requests (slice or map form; &str values are views into larger buffers whose start address varies mod 8 from request to request or, in 40% of the cases, one set of scratch buffers rewritten in place, \
         values concatenated from an adversarial fragment pool; later requests are re-splits / permutations / repeats of earlier \
         tuples; 6% of requests use a 24-83 byte value or a variant of it with a region removed / repeated / one byte changed) + error requests; every successful request is followed by a unique 2^i update; 2% of cases start from a \
         vector that already holds 200-2100 other children. Non-trivial: two different tuples \
         with equal concatenation, or equal tuples requested through different forms/orders. Distinct = hash of decoded choices."
    }
    fn assumptions(&self) -> Vec<&'static str> {
        vec!["equality of tuples is up to collisions of the 64-bit FNV hash, which the generator does not construct"]
    }
    fn budget(&self, tier: Tier) -> Budget {
        match tier {
            Tier::Quick => Budget { cases: 600000, min_len: 8, max_len: 160 },
            Tier::Thorough => Budget { cases: 12000000, min_len: 8, max_len: 240 },
        }
    }

    fn run(&self, src: &mut Src, rep: &mut Report) -> Verdict {
        let mut used_pair = false;
        match self.run_inner(src, rep, &mut used_pair) {
            // the case requested both strings of the known FNV-1a collision: whatever goes wrong then is reported under the
            // collision's own signature (a known finding of the unchanged library), not under the generic ones
            Verdict::Fail { sig, detail } if used_pair => {
                Verdict::Fail { sig: "fnv64-collision-conflates-label-values".into(), detail: format!("[{}] {}", sig, detail) }
            }
            v => v,
        }
    }
}

impl C05 {
    fn run_inner(&self, src: &mut Src, rep: &mut Report, used_pair: &mut bool) -> Verdict {
        let kind = *src.pick(KINDS);
        let mut nlab = 1 + src.below(4);
        if nlab == 4 && src.chance(48) {
            // occasionally many labels (the library imposes no limit; the pool holds 10 names)
            nlab += src.below(7);
        }
        let names = distinct(src, VALID_LABEL_NAMES, nlab);
        let nconst = src.below(3);
        let cnames = distinct(src, CONST_LABEL_NAMES, nconst);
        let mut consts: Vec<(String, String)> = vec![];
        for c in &cnames {
            consts.push((c.to_string(), src.text(VALUE_FRAGS, 2)));
        }
        let mut opts = Opts::new("vec_metric", "help");
        for (k, v) in &consts {
            opts = opts.const_label(k.clone(), v.clone());
        }
        let is_local = matches!(kind, Kind::LocalCounter | Kind::LocalIntCounter | Kind::LocalHistogram);
        let vecr: Result<AnyVec, prometheus::Error> = match kind {
            Kind::Counter | Kind::LocalCounter => CounterVec::new(opts, &names).map(AnyVec::C),
            Kind::IntCounter | Kind::LocalIntCounter => IntCounterVec::new(opts, &names).map(AnyVec::IC),
            Kind::Gauge => GaugeVec::new(opts, &names).map(AnyVec::G),
            Kind::IntGauge => IntGaugeVec::new(opts, &names).map(AnyVec::IG),
            Kind::Histogram | Kind::LocalHistogram => {
                let ho = HistogramOpts::from(opts).buckets(vec![1.0, 16.0, 1024.0]);
                HistogramVec::new(ho, &names).map(AnyVec::H)
            }
        };
        let vec = match vecr {
            Ok(v) => v,
            Err(e) => return fail("valid-vector-rejected", format!("names={:?} consts={:?}: {}", names, consts, e)),
        };
        let mut local = match (&vec, is_local) {
            (AnyVec::C(v), true) => AnyLocal::C(v.local()),
            (AnyVec::IC(v), true) => AnyLocal::IC(v.local()),
            (AnyVec::H(v), true) => AnyLocal::H(v.local()),
            _ => AnyLocal::None,
        };

        let mut model: BTreeMap<Vec<String>, MChild> = BTreeMap::new();
        let mut history: Vec<(Vec<String>, u8)> = vec![]; // (tuple, form)
        let nreq = 2 + src.below(11);
        let check_every = src.chance(32);
        // 40% of cases: every &str request is written into ONE set of scratch buffers, rewritten in place (same addresses from request to
        // request, often the same lengths) - the way a request loop re-uses its buffers; the other cases pass views at shifting addresses
        let scratch_mode = src.chance(100);
        let mut scratch: Vec<String> = (0..nlab).map(|_| String::with_capacity(256)).collect();
        if scratch_mode {
            rep.class("scratch-buffers-rewritten-in-place");
        }
        let mut log: Vec<String> = vec![];
        let mut shifted = false;
        let mut cross_form = false;
        let mut nerr = 0;
        let mut last_long: Option<(Vec<String>, usize)> = None;

        // 2% of cases: the vector already holds hundreds to thousands of other children (the library imposes no limit;
        // every one of them must still be there, once, with its own value, at every later check)
        let bulk = if src.chance(5) { 200 + src.below(1900) } else { 0 };
        for k in 0..bulk {
            let tuple: Vec<String> = (0..nlab).map(|j| format!("#{}", (k * 7919 + j * 31 + 13) % 10007)).collect();
            if model.contains_key(&tuple) {
                continue;
            }
            match vec.get_slice_owned(&tuple) {
                Ok(c) => c.update(40),
                Err(e) => return fail("valid-request-rejected", format!("tuple={:?}: {}", tuple, e)),
            }
            model.entry(tuple).or_default().updates.push(40);
        }
        if bulk > 0 {
            rep.class("large-vector(200-2100 further children)");
        }

        for i in 0..nreq {
            // ---- choose the tuple
            let mode = src.below(8);
            // 6% of requests: one value is a long string (24-83 bytes), or a structural variant of the long value used before
            // (a region removed or repeated, one byte changed, or unchanged) - chunk-wise or prefix-based hashing of label values
            // separates short strings and goes wrong exactly on such pairs
            let long_req = src.chance(16);
            // 1% of requests: one value is one of the two strings with equal 64-bit FNV-1a hash, the rest as in the earlier
            // request that used the other one
            let coll_req = src.chance(3);
            // 0.8% of requests (2+ labels): one of two tuples that differ only in where one value ends and the next begins AND whose value
            // lengths read the same modulo 256 (or 65536) - see pools::length_wrap_twins; the second of the pair comes with a later request
            let wrap_req = nlab >= 2 && src.chance(2);
            // 1% of requests: a value from a pair whose single-label keys agree in the low 16 bits, all other values empty
            let lowbits_req = src.chance(3);
            let tuple: Vec<String> = if lowbits_req {
                let pairs = crate::pools::fnv_low_bits_pairs();
                let (a, b) = &pairs[src.below(pairs.len())];
                let mut t: Vec<String> = vec![String::new(); nlab];
                t[0] = if src.chance(128) { a.clone() } else { b.clone() };
                rep.class("value-from-a-pair-with-keys-equal-in-the-low-16-bits");
                t
            } else if wrap_req {
                let w = if src.chance(200) { 1 } else { 2 };
                let (first, second) = crate::pools::length_wrap_twins(w);
                let k = src.below(nlab - 1);
                let twin_seen = history.iter().any(|(t, _)| t[k] == first.0 && t[k + 1] == first.1);
                let (p, q) = if twin_seen { second } else { first };
                let mut t: Vec<String> = vec![String::new(); nlab];
                t[k] = p;
                t[k + 1] = q;
                rep.class(if w == 1 { "length-wrap-twins(256)" } else { "length-wrap-twins(65536)" });
                t
            } else if coll_req {
                let (a, b) = crate::pools::FNV64_COLLISION;
                match history.iter().rev().find(|(t, _)| t.iter().any(|v| v == a || v == b)).map(|(t, _)| t.clone()) {
                    Some(prev) => {
                        *used_pair = true;
                        rep.class("fnv64-collision-pair-requested");
                        prev.iter().map(|v| if v == a { b.to_string() } else if v == b { a.to_string() } else { v.clone() }).collect()
                    }
                    None => {
                        let k = src.below(nlab);
                        let mut t: Vec<String> = (0..nlab).map(|_| src.text(VALUE_FRAGS, 1)).collect();
                        t[k] = if src.chance(128) { a.to_string() } else { b.to_string() };
                        t
                    }
                }
            } else if long_req {
                const ALPHA: &[u8] = b"abcdefghijklmnopqrstuvwxyz0123456789_";
                match &last_long {
                    Some((prev, k)) if src.chance(170) => {
                        let base = prev[*k].as_bytes().to_vec();
                        let len = base.len();
                        let v: Vec<u8> = match src.below(4) {
                            0 | 1 => {
                                let x = src.below(len + 1);
                                let y = src.below(len + 1);
                                base[..x].iter().chain(base[y..].iter()).copied().collect()
                            }
                            2 => {
                                let mut v = base.clone();
                                let p = if len >= 4 && src.chance(85) { len - 1 - src.below(4) } else { src.below(len.max(1)) };
                                if !v.is_empty() {
                                    v[p] = if v[p] == b'q' { b'r' } else { b'q' };
                                }
                                v
                            }
                            _ => base.clone(),
                        };
                        let mut t = prev.clone();
                        t[*k] = String::from_utf8(v).unwrap();
                        t
                    }
                    _ => {
                        // (a quarter of the long strings are 88-267 bytes: keys around 128 and 256 bytes; fixed buffers have such sizes)
                        let len = if src.chance(64) { 88 + src.below(180) } else { 24 + src.below(60) };
                        let off = src.below(37);
                        let k = src.below(nlab);
                        let mut t: Vec<String> = (0..nlab).map(|_| src.text(VALUE_FRAGS, 1)).collect();
                        t[k] = (0..len).map(|i| ALPHA[(off + i) % ALPHA.len()] as char).collect();
                        last_long = Some((t.clone(), k));
                        t
                    }
                }
            } else if history.is_empty() || mode < 3 {
                (0..nlab).map(|_| src.text(VALUE_FRAGS, 3)).collect()
            } else {
                let j = src.below(history.len());
                let prev = history[j].0.clone();
                match mode {
                    3 | 4 => {
                        let cat: String = prev.concat();
                        resplit(src, &cat, nlab)
                    }
                    5 => {
                        let p = src.perm(nlab);
                        p.iter().map(|&k| prev[k].clone()).collect()
                    }
                    _ => prev,
                }
            };

            // ---- error requests (shared vectors only: the local forms document a panic)
            if !is_local && src.chance(40) {
                nerr += 1;
                let before = neutral(&vec.collect()[0]);
                let which = src.below(5);
                let what;
                let r: Result<(), String> = match which {
                    0 => {
                        what = "slice with one value too few";
                        let t: Vec<&str> = tuple.iter().take(nlab - 1).map(|s| s.as_str()).collect();
                        vec.get_slice(&t).map(|_| ()).map_err(|e| e.to_string())
                    }
                    1 => {
                        what = "slice with one value too many";
                        let mut t: Vec<&str> = tuple.iter().map(|s| s.as_str()).collect();
                        t.push("extra");
                        vec.get_slice(&t).map(|_| ()).map_err(|e| e.to_string())
                    }
                    2 => {
                        what = "map with a wrong name (right size)";
                        let mut m: HashMap<&str, &str, SeededState> = HashMap::with_hasher(SeededState(src.byte() as u64));
                        let wrong = src.below(nlab);
                        // a name that differs only in case, or an unrelated name
                        let flipped: String = names[wrong]
                            .chars()
                            .map(|c| if c.is_ascii_lowercase() { c.to_ascii_uppercase() } else { c.to_ascii_lowercase() })
                            .collect();
                        let alt: &str = if src.chance(128) || flipped == names[wrong] || names.contains(&flipped.as_str()) {
                            "zzz_other"
                        } else {
                            flipped.as_str()
                        };
                        for (k, n) in names.iter().enumerate() {
                            if k == wrong {
                                m.insert(alt, tuple[k].as_str());
                            } else {
                                m.insert(n, tuple[k].as_str());
                            }
                        }
                        vec.get_map(&m).map(|_| ()).map_err(|e| e.to_string())
                    }
                    3 => {
                        what = "map with an extra name";
                        let mut m: HashMap<&str, &str, SeededState> = HashMap::with_hasher(SeededState(src.byte() as u64));
                        for (k, n) in names.iter().enumerate() {
                            m.insert(n, tuple[k].as_str());
                        }
                        m.insert("zzz_extra", "v");
                        vec.get_map(&m).map(|_| ()).map_err(|e| e.to_string())
                    }
                    _ => {
                        what = "empty slice";
                        let t: Vec<&str> = vec![];
                        vec.get_slice(&t).map(|_| ()).map_err(|e| e.to_string())
                    }
                };
                ensure!(r.is_err(), "bad-request-accepted", "{} returned Ok (names={:?} tuple={:?})", what, names, tuple);
                let after = neutral(&vec.collect()[0]);
                ensure!(
                    before.same(&after, false),
                    "bad-request-created-child",
                    "{}: collect changed from {:?} to {:?}",
                    what,
                    before.samples,
                    after.samples
                );
                if rep.want_sample {
                    log.push(format!("ERR({})", what));
                }
                continue;
            }

            // ---- occasionally remove a child (then the tuple must start from zero again)
            if !is_local && !model.is_empty() && src.chance(20) {
                let present = model.contains_key(&tuple);
                let r = if src.chance(128) {
                    let t: Vec<&str> = tuple.iter().map(|s| s.as_str()).collect();
                    vec.remove_slice(&t)
                } else {
                    let mut m: HashMap<&str, &str, SeededState> = HashMap::with_hasher(SeededState(src.byte() as u64));
                    for (k, n) in names.iter().enumerate() {
                        m.insert(n, tuple[k].as_str());
                    }
                    vec.remove_map(&m)
                };
                ensure!(
                    r.is_ok() == present,
                    "remove-wrong-result",
                    "remove of {:?} returned {:?} but model presence is {}",
                    tuple,
                    r.map_err(|e| e.to_string()),
                    present
                );
                model.remove(&tuple);
                rep.class("with-remove");
                if rep.want_sample {
                    log.push(format!("REMOVE{:?}", tuple));
                }
                continue;
            }

            // ---- a valid request
            let form = if is_local { 0 } else { src.below(3) as u8 }; // 0 slice(&str) 1 map 2 slice(String)
            let bit = i as u32;
            for (t, f) in &history {
                if *t == tuple && *f != form {
                    cross_form = true;
                }
                if *t != tuple && t.concat() == tuple.concat() {
                    shifted = true;
                }
            }
            // the &str forms pass views into larger buffers, at a start address that differs (mod 8) from request to request - the way
            // label values borrowed from a request line or a path arrive; the owned form passes freshly allocated Strings
            let padded: Vec<(usize, String)> = tuple
                .iter()
                .enumerate()
                .map(|(j, v)| {
                    let pad = (i * 3 + j * 5 + 1) % 8;
                    (pad, format!("{}{}", &"~~~~~~~~"[..pad], v))
                })
                .collect();
            let in_place = scratch_mode && tuple.iter().all(|v| v.len() <= 256);
            if in_place {
                for (b, v) in scratch.iter_mut().zip(&tuple) {
                    b.clear();
                    b.push_str(v);
                }
            }
            let views: Vec<&str> = if in_place { scratch.iter().map(|b| b.as_str()).collect() } else { padded.iter().map(|(pad, b)| &b[*pad..]).collect() };
            let existed = model.contains_key(&tuple);
            let expected_before = model.get(&tuple).map(|c| model_value(&c.updates)).unwrap_or(0.0);
            let expected_count = model.get(&tuple).map(|c| c.updates.len() as u64).unwrap_or(0);
            match &mut local {
                AnyLocal::None => {
                    let child = match form {
                        0 => vec.get_slice(&views),
                        2 => vec.get_slice_owned(&tuple),
                        _ => {
                            let seed = src.byte() as u64;
                            let mut m: HashMap<&str, &str, SeededState> = HashMap::with_hasher(SeededState(seed));
                            let order = src.perm(nlab);
                            for &k in &order {
                                m.insert(names[k], views[k]);
                            }
                            vec.get_map(&m)
                        }
                    };
                    let child = match child {
                        Ok(c) => c,
                        Err(e) => return fail("valid-request-rejected", format!("tuple={:?} form={}: {}", tuple, form, e)),
                    };
                    let (v, cnt) = child.read();
                    ensure!(
                        v == expected_before && cnt.map_or(true, |c| c == expected_count),
                        if existed { "wrong-child-for-tuple" } else { "fresh-child-not-zero" },
                        "names={:?} request #{} tuple={:?} form={}: handle reads {} (count {:?}) but this tuple's child must read {} (count {}); earlier requests {:?}",
                        names, i, tuple, form, v, cnt, expected_before, expected_count, history
                    );
                    child.update(bit);
                }
                AnyLocal::C(l) => {
                    l.with_label_values(&views).inc_by((1u64 << bit) as f64);
                    if src.chance(64) {
                        l.flush();
                    }
                }
                AnyLocal::IC(l) => {
                    l.with_label_values(&views).inc_by(1u64 << bit);
                    if src.chance(64) {
                        l.flush();
                    }
                }
                AnyLocal::H(l) => {
                    l.with_label_values(&views).observe((1u64 << bit) as f64);
                    if src.chance(64) {
                        l.flush();
                    }
                }
            }
            model.entry(tuple.clone()).or_default().updates.push(bit);
            history.push((tuple.clone(), form));
            if rep.want_sample {
                log.push(format!("GET{}{:?}+2^{}", ["", "map", "owned"][form as usize], tuple, bit));
            }

            if check_every && !is_local {
                if let Err(v) = check_collect(&vec, &names, &consts, &model) {
                    return v;
                }
            }
        }

        match &local {
            AnyLocal::C(l) => l.flush(),
            AnyLocal::IC(l) => l.flush(),
            AnyLocal::H(l) => l.flush(),
            AnyLocal::None => {}
        }
        if let Err(v) = check_collect(&vec, &names, &consts, &model) {
            return v;
        }

        rep.nontrivial = shifted || cross_form;
        rep.class(match kind {
            Kind::Counter => "kind:counter",
            Kind::IntCounter => "kind:int_counter",
            Kind::Gauge => "kind:gauge",
            Kind::IntGauge => "kind:int_gauge",
            Kind::Histogram => "kind:histogram",
            Kind::LocalCounter => "kind:local_counter",
            Kind::LocalIntCounter => "kind:local_int_counter",
            Kind::LocalHistogram => "kind:local_histogram",
        });
        if shifted {
            rep.class("boundary-shifted-pair");
        }
        if last_long.is_some() {
            rep.class("long-value-and-structural-variants");
        }
        if cross_form {
            rep.class("same-tuple-different-form");
        }
        if nerr > 0 {
            rep.class("with-error-request");
        }
        if nconst > 0 {
            rep.class("with-const-labels");
        }
        if rep.want_sample {
            let text = format!("{:?} names={:?} consts={:?} :: {}", kind, names, consts, log.join(" "));
            rep.sample = Some(if text.len() > 4000 { format!("{} ... ({} bytes)", text.chars().take(600).collect::<String>(), text.len()) } else { text });
        }
        Verdict::Pass
    }
}

fn check_collect(
    vec: &AnyVec,
    names: &[&str],
    consts: &[(String, String)],
    model: &BTreeMap<Vec<String>, MChild>,
) -> Result<(), Verdict> {
    let fams = vec.collect();
    if fams.len() != 1 {
        return Err(fail("collect-shape", format!("{} families", fams.len())));
    }
    let fam: NFamily = neutral(&fams[0]);
    // expected: one sample per tuple
    let mut expected: BTreeMap<Vec<(String, String)>, &MChild> = BTreeMap::new();
    for (t, c) in model {
        let mut labels: Vec<(String, String)> =
            names.iter().zip(t).map(|(n, v)| (n.to_string(), v.clone())).collect();
        labels.extend(consts.iter().cloned());
        labels.sort();
        expected.insert(labels, c);
    }
    let mut seen: BTreeMap<Vec<(String, String)>, usize> = BTreeMap::new();
    for s in &fam.samples {
        let mut l = s.labels.clone();
        l.sort();
        *seen.entry(l.clone()).or_default() += 1;
        let Some(c) = expected.get(&l) else {
            return Err(fail(
                "unexpected-sample",
                format!("collect shows labels {:?} which no request asked for; model tuples {:?}", s.labels, model.keys().collect::<Vec<_>>()),
            ));
        };
        let want = model_value(&c.updates);
        let ok = match &s.value {
            NValue::Counter(v) | NValue::Gauge(v) => *v == want,
            NValue::Histogram { count, sum, .. } => *sum == want && *count == c.updates.len() as u64,
            _ => false,
        };
        if !ok {
            return Err(fail(
                "child-value-mismatch",
                format!("sample {:?} has value {:?} but the updates made through this tuple are bits {:?} (= {})", s.labels, s.value, c.updates, want),
            ));
        }
    }
    for (l, n) in &seen {
        if *n != 1 {
            return Err(fail("duplicate-sample", format!("labels {:?} appear {} times", l, n)));
        }
    }
    if seen.len() != expected.len() {
        let missing: Vec<_> = expected.keys().filter(|k| !seen.contains_key(*k)).collect();
        return Err(fail(
            "missing-child",
            format!("{} distinct tuples requested but collect shows {} samples; missing {:?}", expected.len(), seen.len(), missing),
        ));
    }
    Ok(())
}
