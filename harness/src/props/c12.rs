//! C12 — local (unsync) metrics hand over exactly what they accumulated.

use std::collections::BTreeMap;

use prometheus::core::Collector;
use prometheus::local::{LocalCounter, LocalCounterVec, LocalHistogram, LocalHistogramVec, LocalIntCounter, LocalIntCounterVec};
use prometheus::{Counter, CounterVec, Histogram, HistogramOpts, HistogramVec, IntCounter, IntCounterVec, Opts};

use crate::engine::{fail, Budget, Property, Report, Tier, Verdict};
use crate::neutral::{feq, neutral, show_f64, NValue};
use crate::src::Src;

pub struct C12;

const BOUNDS: &[f64] = &[1.0, 4.0];
const TUPLES: &[&str] = &["x", "y", "xy", ""];

#[derive(Clone, Copy, PartialEq, Eq, Debug)]
enum Kind {
    Counter,
    IntCounter,
    Histogram,
    CounterVec,
    IntCounterVec,
    HistogramVec,
}
const KINDS: &[Kind] = &[Kind::IntCounter, Kind::Histogram, Kind::Counter, Kind::IntCounterVec, Kind::HistogramVec, Kind::CounterVec];

impl Kind {
    fn is_vec(self) -> bool {
        matches!(self, Kind::CounterVec | Kind::IntCounterVec | Kind::HistogramVec)
    }
    fn is_hist(self) -> bool {
        matches!(self, Kind::Histogram | Kind::HistogramVec)
    }
    fn is_int(self) -> bool {
        matches!(self, Kind::IntCounter | Kind::IntCounterVec)
    }
}

enum Shared {
    C(Counter),
    IC(IntCounter),
    H(Histogram),
    CV(CounterVec),
    ICV(IntCounterVec),
    HV(HistogramVec),
}

/// A handle to one real child object (kept even after the child left its vector).
enum RealChild {
    C(Counter),
    IC(IntCounter),
    H(Histogram),
}

enum Local {
    C(LocalCounter),
    IC(LocalIntCounter),
    H(LocalHistogram),
    CV(LocalCounterVec),
    ICV(LocalIntCounterVec),
    HV(LocalHistogramVec),
}

/// Model of one shared child object: everything that reached it, in order.
#[derive(Default, Clone)]
struct ChildM {
    value: f64, // counter value / histogram sum
    obs: Vec<f64>,
    count: u64,
}

#[derive(Default, Clone)]
struct Pending {
    child: usize,
    vals: Vec<f64>,
    sum: f64,
}

struct LocalM {
    real: Local,
    pend: BTreeMap<String, Pending>, // tuple -> pending batch (scalar kinds use "")
}

struct World {
    kind: Kind,
    shared: Shared,
    children: Vec<ChildM>,
    reals: Vec<RealChild>,
    current: BTreeMap<String, usize>, // tuple -> child index (scalar: "" -> 0)
    locals: Vec<Option<LocalM>>,
}

impl World {
    fn deliver_direct(&mut self, ci: usize, v: f64) {
        let c = &mut self.children[ci];
        c.value += v;
        c.obs.push(v);
        c.count += 1;
    }
    fn deliver_batch(&mut self, p: &Pending) {
        if p.vals.is_empty() {
            return;
        }
        let hist = self.kind.is_hist();
        let c = &mut self.children[p.child];
        if !hist && p.sum == 0.0 {
            // a local counter whose pending amount is zero does not touch the shared counter
            return;
        }
        c.value += p.sum;
        c.obs.extend_from_slice(&p.vals);
        c.count += p.vals.len() as u64;
    }
    /// Get (creating if needed) the current child for a tuple of a vector.
    fn child_for(&mut self, t: &str) -> usize {
        if let Some(i) = self.current.get(t) {
            return *i;
        }
        let real = match &self.shared {
            Shared::CV(v) => RealChild::C(v.with_label_values(&[t])),
            Shared::ICV(v) => RealChild::IC(v.with_label_values(&[t])),
            Shared::HV(v) => RealChild::H(v.with_label_values(&[t])),
            _ => unreachable!(),
        };
        self.children.push(ChildM::default());
        self.reals.push(real);
        let i = self.children.len() - 1;
        self.current.insert(t.to_string(), i);
        i
    }
}

fn gen_value(src: &mut Src, kind: Kind) -> f64 {
    if kind.is_int() {
        return (1 + src.below(8)) as f64;
    }
    if src.chance(26) {
        // arbitrary finite float (non-negative for counters)
        let v = f64::from_bits(src.u64raw());
        let v = if v.is_finite() { v } else { 1.5 };
        if kind.is_hist() {
            v
        } else {
            v.abs()
        }
    } else if kind.is_hist() {
        // non-finite observations are legal for histograms
        *src.pick(&[1.0, 0.5, 4.0, 5.0, 2.0, -1.0, 0.0, f64::NAN, f64::INFINITY, f64::NEG_INFINITY, -0.0])
    } else {
        src.below(9) as f64 / 2.0
    }
}

/// Payload of the deliberate panic that unwinds over a local handle.
pub struct UnwindMarker;

/// One update through local handle `li` for tuple `t`, mirrored in the model.
fn local_update(w: &mut World, kind: Kind, li: usize, t: &str, v: f64) {
    let t = t.to_string();
    // binding: a vector local binds to the child that is current when the tuple is first used
    let has = w.locals[li].as_ref().unwrap().pend.contains_key(&t);
    let ci = if has {
        w.locals[li].as_ref().unwrap().pend[&t].child
    } else if kind.is_vec() {
        w.child_for(&t)
    } else {
        0
    };
    let l = w.locals[li].as_mut().unwrap();
    match &mut l.real {
        Local::C(c) => c.inc_by(v),
        Local::IC(c) => c.inc_by(v as u64),
        Local::H(c) => c.observe(v),
        Local::CV(c) => c.with_label_values(&[&t]).inc_by(v),
        Local::ICV(c) => c.with_label_values(&[&t]).inc_by(v as u64),
        Local::HV(c) => c.with_label_values(&[&t]).observe(v),
    }
    let p = l.pend.entry(t.clone()).or_insert(Pending { child: ci, vals: vec![], sum: 0.0 });
    p.vals.push(v);
    p.sum += v;
}

/// One batch larger than any 32-bit counter: 2^32 + 5 observations accumulate in one LocalHistogram before a single flush delivers
/// them (thorough tier only: the loop takes 10-20 s). Sums of 1.5 stay exact in f64 far beyond this size.
fn long_accumulation() -> Result<u64, (String, String)> {
    let r = std::panic::catch_unwind(|| {
        let h = Histogram::with_opts(HistogramOpts::new("big", "h").buckets(vec![1.0, 2.0])).unwrap();
        let l = h.local();
        let n: u64 = (1u64 << 32) + 5;
        for _ in 0..n {
            l.observe(1.5);
        }
        l.flush();
        let fams = h.collect();
        let hist = fams[0].get_metric()[0].get_histogram().clone();
        let cum: Vec<u64> = hist.get_bucket().iter().map(|b| b.cumulative_count()).collect();
        (n, hist.get_sample_count(), hist.get_sample_sum(), cum)
    });
    match r {
        Err(e) => {
            let m = e.downcast_ref::<&str>().map(|s| s.to_string()).or_else(|| e.downcast_ref::<String>().cloned()).unwrap_or_default();
            Err(("panic:long-local-batch".into(), format!("accumulating 2^32+5 observations in one LocalHistogram and flushing panicked: {}", m)))
        }
        Ok((n, count, sum, cum)) => {
            if count != n || sum != 1.5 * n as f64 || cum != vec![0, n] {
                return Err((
                    "long-local-batch-not-delivered".into(),
                    format!("{} observations of 1.5 accumulated in one LocalHistogram (bounds 1, 2) and flushed once: shared histogram shows count={} sum={} cumulative buckets={:?}", n, count, sum, cum),
                ));
            }
            Ok(n)
        }
    }
}

impl Property for C12 {
    fn id(&self) -> &'static str {
        "C12"
    }
    fn rule(&self) -> &'static str {
        "case = kind (Counter, IntCounter, Histogram, CounterVec, IntCounterVec, HistogramVec) x history of 5-50 operations over one \
         shared object and up to 4 local handles: create local, local update, flush (sometimes twice), reset/clear, clone, drop (a third of them by the unwinding of a caught panic), \
         direct shared update, shared reset, and for vectors local with_label_values over 4 overlapping tuples, local \
         remove_label_values, removal / re-creation of a child through the shared vector. Values: small integers / dyadics (histograms: also bucket bounds, NaN, +-Inf, -0.0), ~10% \
         arbitrary finite floats. Oracle: reference model per shared child object (direct updates + flushed batches, float sums \
         mirrored in the same order), compared after every operation with the shared values (get / collected count, sum, buckets, \
         also of detached children) and with every local's pending count/sum. Non-trivial: >=2 local handles with interleaved \
         updates and at least one of {clone with pending data, drop with pending data, flush after shared reset, local \
         remove_label_values with pending data}; for vectors also Clone::clone_from between handles cloned out of a local vector for two different children. Thorough tier: one further stage accumulates 2^32+5 observations in a single LocalHistogram before one flush. Distinct = decoded choices."
    }
    fn assumptions(&self) -> Vec<&'static str> {
        vec![
            "a local bound to a child that was later removed and re-created keeps feeding the old child object (documented vector semantics)",
            "dropping a local counter (vector) is not required to flush; dropping a local histogram (vector) is",
        ]
    }
    fn budget(&self, tier: Tier) -> Budget {
        match tier {
            Tier::Quick => Budget { cases: 400000, min_len: 8, max_len: 300 },
            Tier::Thorough => Budget { cases: 8000000, min_len: 8, max_len: 400 },
        }
    }

    fn post(&self, tier: Tier, _seed: u64, stats: &mut crate::engine::Stats) -> Result<(), (String, String, Vec<u8>)> {
        if tier == Tier::Thorough {
            match long_accumulation() {
                Ok(n) => stats.extra.push(("observations_in_one_local_batch".into(), serde_json::json!(n))),
                Err((sig, d)) => return Err((sig, d, vec![0xFC; 8])),
            }
        }
        Ok(())
    }

    fn run(&self, src: &mut Src, rep: &mut Report) -> Verdict {
        // the 8-byte case 0xFC x 8 stands for the long-accumulation stage (see `post`)
        if src.data() == [0xFC; 8] {
            rep.class("long-accumulation-stage");
            return match long_accumulation() {
                Ok(_) => Verdict::Pass,
                Err((sig, d)) => fail(sig, d),
            };
        }
        let kind = *src.pick(KINDS);
        // 10% of the histogram cases use 40 bounds 0.5, 1.0, ... 20.0 (the generated values 0.5 / 1 / 2 / 4 / 5 sit exactly on bounds)
        let wide = kind.is_hist() && src.chance(26);
        // (half of them: 111 bounds from -35.0 to 20.0, so that the same values land in buckets with an index beyond 64)
        let very_wide = wide && src.chance(128);
        let bounds: Vec<f64> = if very_wide {
            (-70..=40).map(|k| k as f64 * 0.5).collect()
        } else if wide {
            (1..=40).map(|k| k as f64 * 0.5).collect()
        } else {
            BOUNDS.to_vec()
        };
        if wide {
            rep.class(if very_wide { "wide-histogram(111 bounds)" } else { "wide-histogram(40 bounds)" });
        }
        let shared = match kind {
            Kind::Counter => Shared::C(Counter::with_opts(Opts::new("c", "h")).unwrap()),
            Kind::IntCounter => Shared::IC(IntCounter::with_opts(Opts::new("c", "h")).unwrap()),
            Kind::Histogram => Shared::H(Histogram::with_opts(HistogramOpts::new("c", "h").buckets(bounds.clone())).unwrap()),
            Kind::CounterVec => Shared::CV(CounterVec::new(Opts::new("c", "h"), &["l"]).unwrap()),
            Kind::IntCounterVec => Shared::ICV(IntCounterVec::new(Opts::new("c", "h"), &["l"]).unwrap()),
            Kind::HistogramVec => Shared::HV(HistogramVec::new(HistogramOpts::new("c", "h").buckets(bounds.clone()), &["l"]).unwrap()),
        };
        let mut w = World { kind, shared, children: vec![], reals: vec![], current: BTreeMap::new(), locals: vec![] };
        if !kind.is_vec() {
            w.children.push(ChildM::default());
            w.reals.push(match &w.shared {
                Shared::C(c) => RealChild::C(c.clone()),
                Shared::IC(c) => RealChild::IC(c.clone()),
                Shared::H(c) => RealChild::H(c.clone()),
                _ => unreachable!(),
            });
            w.current.insert(String::new(), 0);
        }
        let nops = 5 + src.below(46);
        let mut log: Vec<String> = vec![];
        let mut interesting = false;
        let mut locals_updated: Vec<bool> = vec![];
        let mut burst_done = false;
        let mut shared_reset_happened = false;

        for step in 0..nops {
            let live: Vec<usize> = w.locals.iter().enumerate().filter(|(_, l)| l.is_some()).map(|(i, _)| i).collect();
            let op = src.below(16);
            let t: String = if kind.is_vec() { src.pick(TUPLES).to_string() } else { String::new() };
            let pick_live = |src: &mut Src| -> Option<usize> {
                if live.is_empty() {
                    None
                } else {
                    Some(live[src.below(live.len())])
                }
            };
            match op {
                // ---- create a local handle
                0 | 1 => {
                    if live.len() < 4 {
                        let real = match &w.shared {
                            Shared::C(c) => Local::C(c.local()),
                            Shared::IC(c) => Local::IC(c.local()),
                            Shared::H(c) => Local::H(c.local()),
                            Shared::CV(c) => Local::CV(c.local()),
                            Shared::ICV(c) => Local::ICV(c.local()),
                            Shared::HV(c) => Local::HV(c.local()),
                        };
                        w.locals.push(Some(LocalM { real, pend: BTreeMap::new() }));
                        locals_updated.push(false);
                        log.push(format!("new L{}", w.locals.len() - 1));
                    }
                }
                // ---- local update
                2..=6 => {
                    if let Some(li) = pick_live(src) {
                        let v = gen_value(src, kind);
                        local_update(&mut w, kind, li, &t, v);
                        locals_updated[li] = true;
                        log.push(format!("L{}[{:?}]+={}", li, t, show_f64(v)));
                        // once per case (vector kinds, about 5% of them): the same local vector then touches 260-500 (one time in twelve: 4100-4400) further tuples, one
                        // update each (the library imposes no limit on the number of children a local vector caches)
                        if kind.is_vec() && !burst_done && src.chance(2) {
                            burst_done = true;
                            // (one burst in twelve: 4100-4400 tuples - beyond 4096, the next size at which a cache gets bounded)
                            let big = src.chance(21);
                            let n = if big { 4100 + src.below(300) } else { 260 + src.below(240) };
                            for k in 0..n {
                                local_update(&mut w, kind, li, &format!("#{}", (k * 7919 + 13) % 10007), 1.0);
                            }
                            rep.class(if big { "local-vector-touches-4100-4400-tuples" } else { "local-vector-touches-260-500-tuples" });
                            log.push(format!("L{}[#0..#{}]+=1", li, n));
                        }
                    }
                }
                // ---- flush (sometimes twice)
                7 | 8 => {
                    if let Some(li) = pick_live(src) {
                        let twice = src.chance(100);
                        let pend: Vec<(String, Pending)> = {
                            let l = w.locals[li].as_mut().unwrap();
                            let out: Vec<(String, Pending)> = l.pend.iter().map(|(k, v)| (k.clone(), v.clone())).collect();
                            for (_, p) in l.pend.iter_mut() {
                                p.vals.clear();
                                p.sum = 0.0;
                            }
                            out
                        };
                        if shared_reset_happened && pend.iter().any(|(_, p)| !p.vals.is_empty()) {
                            interesting = true;
                        }
                        for (_, p) in &pend {
                            w.deliver_batch(p);
                        }
                        let l = w.locals[li].as_ref().unwrap();
                        for _ in 0..(if twice { 2 } else { 1 }) {
                            match &l.real {
                                Local::C(c) => c.flush(),
                                Local::IC(c) => c.flush(),
                                Local::H(c) => c.flush(),
                                Local::CV(c) => c.flush(),
                                Local::ICV(c) => c.flush(),
                                Local::HV(c) => c.flush(),
                            }
                        }
                        log.push(format!("L{}.flush{}", li, if twice { "x2" } else { "" }));
                    }
                }
                // ---- reset / clear of the local data (per tuple for vectors)
                9 => {
                    if let Some(li) = pick_live(src) {
                        let l = w.locals[li].as_mut().unwrap();
                        let had = l.pend.contains_key(&t);
                        match &mut l.real {
                            Local::C(c) => c.reset(),
                            Local::IC(c) => c.reset(),
                            Local::H(c) => c.clear(),
                            Local::CV(c) => {
                                if had {
                                    c.with_label_values(&[&t]).reset()
                                }
                            }
                            Local::ICV(c) => {
                                if had {
                                    c.with_label_values(&[&t]).reset()
                                }
                            }
                            Local::HV(c) => {
                                if had {
                                    c.with_label_values(&[&t]).clear()
                                }
                            }
                        }
                        if let Some(p) = l.pend.get_mut(&t) {
                            p.vals.clear();
                            p.sum = 0.0;
                        }
                        log.push(format!("L{}[{:?}].reset", li, t));
                    }
                }
                // ---- vectors, a fifth of the clone operations: two handles cloned out of a fresh local vector (for the tuple of this step and
                // for another one), one gets a pending amount and is then overwritten with Clone::clone_from of the other: what the
                // overwritten handle held goes where dropping it would send it (a local histogram flushes into ITS child, a local counter
                // forgets), and the handle then feeds the other's child
                10 if kind.is_vec() && src.chance(50) => {
                    let t2 = src.pick(TUPLES).to_string();
                    let (c1, c2) = (w.child_for(&t), w.child_for(&t2));
                    match &w.shared {
                        Shared::HV(v) => {
                            let mut lv = v.local();
                            let mut a = lv.with_label_values(&[&t]).clone();
                            let b = lv.with_label_values(&[&t2]).clone();
                            a.observe(1.0);
                            a.clone_from(&b);
                            a.observe(2.0);
                            a.flush();
                        }
                        Shared::CV(v) => {
                            let mut lv = v.local();
                            let mut a = lv.with_label_values(&[&t]).clone();
                            let b = lv.with_label_values(&[&t2]).clone();
                            a.inc_by(1.0);
                            a.clone_from(&b);
                            a.inc_by(2.0);
                            a.flush();
                        }
                        Shared::ICV(v) => {
                            let mut lv = v.local();
                            let mut a = lv.with_label_values(&[&t]).clone();
                            let b = lv.with_label_values(&[&t2]).clone();
                            a.inc_by(1);
                            a.clone_from(&b);
                            a.inc_by(2);
                            a.flush();
                        }
                        _ => unreachable!(),
                    }
                    if kind.is_hist() {
                        w.deliver_direct(c1, 1.0);
                    }
                    w.deliver_direct(c2, 2.0);
                    interesting = true;
                    rep.class("clone_from-between-handles-of-two-children");
                    log.push(format!("a=L[{:?}] b=L[{:?}] a+=1 a.clone_from(b) a+=2 a.flush", t, t2));
                }
                // ---- clone: the clone starts empty and is independent
                10 => {
                    if let (Some(li), true) = (pick_live(src), live.len() < 4) {
                        let l = w.locals[li].as_ref().unwrap();
                        if l.pend.values().any(|p| !p.vals.is_empty()) {
                            interesting = true;
                        }
                        let real = match &l.real {
                            Local::C(c) => Local::C(c.clone()),
                            Local::IC(c) => Local::IC(c.clone()),
                            Local::H(c) => Local::H(c.clone()),
                            Local::CV(c) => Local::CV(c.clone()),
                            Local::ICV(c) => Local::ICV(c.clone()),
                            Local::HV(c) => Local::HV(c.clone()),
                        };
                        // a scalar clone stays bound to the same shared object
                        let mut pend = BTreeMap::new();
                        if !kind.is_vec() {
                            pend.insert(String::new(), Pending { child: 0, vals: vec![], sum: 0.0 });
                        }
                        w.locals.push(Some(LocalM { real, pend }));
                        locals_updated.push(false);
                        log.push(format!("L{}=clone(L{})", w.locals.len() - 1, li));
                    }
                }
                // ---- drop
                11 => {
                    if let Some(li) = pick_live(src) {
                        let l = w.locals[li].take().unwrap();
                        let pending = l.pend.values().any(|p| !p.vals.is_empty());
                        if pending {
                            interesting = true;
                        }
                        if kind.is_hist() {
                            for (_, p) in &l.pend {
                                w.deliver_batch(p);
                            }
                        }
                        // a third of the drops happen while a (caught) panic unwinds the frame that owns the handle
                        if src.chance(85) {
                            let r = std::panic::catch_unwind(std::panic::AssertUnwindSafe(move || {
                                let _owned = l;
                                std::panic::panic_any(crate::props::c12::UnwindMarker);
                            }));
                            if !matches!(&r, Err(p) if p.is::<UnwindMarker>()) {
                                return fail("panic:local-drop-in-unwind", "dropping a local handle during unwinding panicked by itself".to_string());
                            }
                            rep.class("local-handle-dropped-by-an-unwinding-panic");
                            log.push(format!("drop(unwind) L{}", li));
                        } else {
                            drop(l);
                            log.push(format!("drop L{}", li));
                        }
                    }
                }
                // ---- direct update of the shared metric
                12 => {
                    let v = gen_value(src, kind);
                    let ci = if kind.is_vec() { w.child_for(&t) } else { 0 };
                    match &w.reals[ci] {
                        RealChild::C(c) => c.inc_by(v),
                        RealChild::IC(c) => c.inc_by(v as u64),
                        RealChild::H(c) => c.observe(v),
                    }
                    w.deliver_direct(ci, v);
                    log.push(format!("shared[{:?}]+={}", t, show_f64(v)));
                }
                // ---- reset of the shared metric
                13 => match &w.shared {
                    Shared::C(c) => {
                        c.reset();
                        w.children[0] = ChildM::default();
                        shared_reset_happened = true;
                        log.push("shared.reset".into());
                    }
                    Shared::IC(c) => {
                        c.reset();
                        w.children[0] = ChildM::default();
                        shared_reset_happened = true;
                        log.push("shared.reset".into());
                    }
                    Shared::CV(c) => {
                        c.reset();
                        w.current.clear();
                        shared_reset_happened = true;
                        log.push("vec.reset".into());
                    }
                    Shared::ICV(c) => {
                        c.reset();
                        w.current.clear();
                        shared_reset_happened = true;
                        log.push("vec.reset".into());
                    }
                    Shared::HV(c) => {
                        c.reset();
                        w.current.clear();
                        shared_reset_happened = true;
                        log.push("vec.reset".into());
                    }
                    Shared::H(_) => {}
                },
                // ---- removal through the shared vector
                14 => {
                    let present = w.current.contains_key(&t);
                    let r = match &w.shared {
                        Shared::CV(c) => Some(c.remove_label_values(&[&t])),
                        Shared::ICV(c) => Some(c.remove_label_values(&[&t])),
                        Shared::HV(c) => Some(c.remove_label_values(&[&t])),
                        _ => None,
                    };
                    if let Some(r) = r {
                        if r.is_ok() != present {
                            return fail("remove-wrong-result", format!("step {}: vec.remove_label_values({:?}) -> {:?}, present={} ;; {}", step, t, r.map_err(|e| e.to_string()), present, log.join(" ")));
                        }
                        w.current.remove(&t);
                        log.push(format!("vec.remove[{:?}]", t));
                    }
                }
                // ---- removal through a local vector
                _ => {
                    if let (Some(li), true) = (pick_live(src), kind.is_vec()) {
                        let present = w.current.contains_key(&t);
                        let p = w.locals[li].as_mut().unwrap().pend.remove(&t);
                        if let Some(p) = &p {
                            if !p.vals.is_empty() {
                                interesting = true;
                            }
                            if kind.is_hist() {
                                // the local histogram is dropped, which flushes it into the child it is bound to
                                w.deliver_batch(p);
                            }
                        }
                        let l = w.locals[li].as_mut().unwrap();
                        let r = match &mut l.real {
                            Local::CV(c) => c.remove_label_values(&[&t]),
                            Local::ICV(c) => c.remove_label_values(&[&t]),
                            Local::HV(c) => c.remove_label_values(&[&t]),
                            _ => unreachable!(),
                        };
                        if r.is_ok() != present {
                            return fail("remove-wrong-result", format!("step {}: local.remove_label_values({:?}) -> {:?}, present={} ;; {}", step, t, r.map_err(|e| e.to_string()), present, log.join(" ")));
                        }
                        w.current.remove(&t);
                        log.push(format!("L{}.remove[{:?}]", li, t));
                    }
                }
            }
            if let Err(v) = verify(&mut w, step, &log) {
                return v;
            }
        }
        let multi = locals_updated.iter().filter(|x| **x).count() >= 2;
        rep.nontrivial = multi && interesting;
        rep.class(match kind {
            Kind::Counter => "kind:counter",
            Kind::IntCounter => "kind:int_counter",
            Kind::Histogram => "kind:histogram",
            Kind::CounterVec => "kind:counter_vec",
            Kind::IntCounterVec => "kind:int_counter_vec",
            Kind::HistogramVec => "kind:histogram_vec",
        });
        if interesting {
            rep.class("clone/drop/remove-with-pending-or-flush-after-reset");
        }
        if multi {
            rep.class("2+-locals-updated");
        }
        if rep.want_sample {
            rep.sample = Some(format!("{:?} :: {}", kind, log.join(" ")));
        }
        Verdict::Pass
    }
}

fn verify(w: &mut World, step: usize, log: &[String]) -> Result<(), Verdict> {
    let ctx = |what: String| -> Verdict { fail(what.split(':').next().unwrap().to_string(), format!("step {}: {} ;; history: {}", step, what, log.join(" "))) };
    // every child object we hold a handle to (including detached ones)
    for (i, (m, r)) in w.children.iter().zip(&w.reals).enumerate() {
        match r {
            RealChild::C(c) => {
                if !feq(c.get(), m.value) {
                    return Err(ctx(format!("shared-value-mismatch: child #{} reads {} but direct updates + flushed batches give {}", i, show_f64(c.get()), show_f64(m.value))));
                }
            }
            RealChild::IC(c) => {
                if c.get() as f64 != m.value {
                    return Err(ctx(format!("shared-value-mismatch: child #{} reads {} but direct updates + flushed batches give {}", i, c.get(), m.value)));
                }
            }
            RealChild::H(h) => {
                let fams = h.collect();
                let f = neutral(&fams[0]);
                let NValue::Histogram { count, sum, buckets } = &f.samples[0].value else {
                    return Err(ctx("collect-shape: not a histogram".into()));
                };
                // (the exposed bounds themselves are C08's subject; here: the counts under them)
                let want: Vec<u64> = buckets.iter().map(|b| m.obs.iter().filter(|v| **v <= b.0).count() as u64).collect();
                let got: Vec<u64> = buckets.iter().map(|b| b.1).collect();
                if *count != m.count || !feq(*sum, m.value) || got != want || h.get_sample_count() != m.count || !feq(h.get_sample_sum(), m.value) {
                    return Err(ctx(format!(
                        "shared-value-mismatch: histogram child #{} shows count={} sum={} buckets={:?} (getters {} / {}) but direct updates + flushed batches give count={} sum={} buckets={:?}",
                        i, count, show_f64(*sum), got, h.get_sample_count(), show_f64(h.get_sample_sum()), m.count, show_f64(m.value), want
                    )));
                }
            }
        }
    }
    // the vector exposes exactly the current children
    let fams = match &w.shared {
        Shared::CV(v) => Some(v.collect()),
        Shared::ICV(v) => Some(v.collect()),
        Shared::HV(v) => Some(v.collect()),
        _ => None,
    };
    if let Some(fams) = fams {
        let f = neutral(&fams[0]);
        let mut got: Vec<String> = f.samples.iter().map(|s| s.labels[0].1.clone()).collect();
        got.sort();
        let want: Vec<String> = w.current.keys().cloned().collect();
        if got != want {
            return Err(ctx(format!("vector-children-mismatch: collect shows tuples {:?}, model has {:?}", got, want)));
        }
        for s in &f.samples {
            let ci = w.current[&s.labels[0].1];
            let m = &w.children[ci];
            let ok = match &s.value {
                NValue::Counter(v) => feq(*v, m.value),
                NValue::Histogram { count, sum, .. } => *count == m.count && feq(*sum, m.value),
                _ => false,
            };
            if !ok {
                return Err(ctx(format!("shared-value-mismatch: vector child {:?} exposes {:?}, model child #{} has value {} count {}", s.labels, s.value, ci, show_f64(m.value), m.count)));
            }
        }
    }
    // every local reports exactly its pending batch
    for (li, l) in w.locals.iter_mut().enumerate() {
        let Some(l) = l else { continue };
        let keys: Vec<String> = l.pend.keys().cloned().collect();
        for t in keys {
            let p = l.pend[&t].clone();
            let (cnt, sum): (Option<u64>, f64) = match &mut l.real {
                Local::C(c) => (None, c.get()),
                Local::IC(c) => (None, c.get() as f64),
                Local::H(c) => (Some(c.get_sample_count()), c.get_sample_sum()),
                Local::CV(c) => (None, c.with_label_values(&[&t]).get()),
                Local::ICV(c) => (None, c.with_label_values(&[&t]).get() as f64),
                Local::HV(c) => {
                    let h = c.with_label_values(&[&t]);
                    (Some(h.get_sample_count()), h.get_sample_sum())
                }
            };
            if !feq(sum, p.sum) || cnt.map_or(false, |c| c != p.vals.len() as u64) {
                return Err(ctx(format!(
                    "local-pending-mismatch: local L{}[{:?}] reports sum={} count={:?} but its unflushed batch is {:?} (sum {})",
                    li, t, show_f64(sum), cnt, p.vals, show_f64(p.sum)
                )));
            }
        }
        // scalar locals with no entry yet must read zero
        if l.pend.is_empty() {
            let (cnt, sum): (Option<u64>, f64) = match &l.real {
                Local::C(c) => (None, c.get()),
                Local::IC(c) => (None, c.get() as f64),
                Local::H(c) => (Some(c.get_sample_count()), c.get_sample_sum()),
                _ => (None, 0.0),
            };
            if sum != 0.0 || cnt.map_or(false, |c| c != 0) {
                return Err(ctx(format!("local-pending-mismatch: fresh local L{} reports sum={} count={:?}", li, sum, cnt)));
            }
        }
    }
    Ok(())
}
