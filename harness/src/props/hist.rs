//! C02 (every histogram snapshot is one consistent cut) and C03 (histograms conserve observations
//! across any sequence of collects and flushes; collect terminates) — scheduler + happens-before
//! monitor. Both properties share the program generator, the executor and the set oracle; they
//! differ in the shape of the generated histories and in which clauses they add.

use std::sync::{Arc, Mutex};

use prometheus::core::{Collector, Metric};
use prometheus::local::LocalHistogram;
use prometheus::{Histogram, HistogramOpts, HistogramVec, Registry};

use crate::engine::{fail, Budget, Property, Report, Tier, Verdict};
use crate::hb;
use crate::neutral::{neutral_all, NValue};
use crate::sched::{run_opts, Ann, Chooser, Decision, ExecVerdict, OpFn, HALT};
use crate::schedsrc::make_chooser;
use crate::src::Src;

#[derive(Clone, Debug, PartialEq)]
pub enum HOpK {
    Observe(u32),
    LocalObserve(u32),
    LocalFlush,
    /// 0 = Metric::metric, 1 = Collector::collect (histogram or its vector), 2 = Registry::gather
    Collect(u8),
    GetCount,
    GetSum,
}

#[derive(Clone, Debug, PartialEq)]
pub enum HRes {
    Unit,
    Snap { count: u64, sum: f64, buckets: Vec<u64> },
    Count(u64),
    Sum(f64),
}

#[derive(Clone)]
struct Sys {
    h: Histogram,
    /// None (single-handle programs): every collection goes through the one handle
    coll: Option<Arc<dyn Collector>>,
    reg: Registry,
    locals: Vec<Arc<Mutex<LocalHistogram>>>,
    /// +1.0, or -1.0 for programs whose observations are all negative (-(2^i)); sums are multiplied by it again when read,
    /// so that the decoding below is the same
    sign: f64,
}

fn snap_of(fams: &[prometheus::proto::MetricFamily]) -> HRes {
    let n = neutral_all(fams);
    for f in &n {
        if f.name == "h" {
            if let Some(s) = f.samples.first() {
                if let NValue::Histogram { count, sum, buckets } = &s.value {
                    return HRes::Snap { count: *count, sum: *sum, buckets: buckets.iter().map(|b| b.1).collect() };
                }
            }
        }
    }
    HRes::Snap { count: u64::MAX, sum: f64::NAN, buckets: vec![] }
}

impl Sys {
    fn exec(&self, thread: usize, op: &HOpK) -> HRes {
        match self.exec_raw(thread, op) {
            HRes::Snap { count, sum, buckets } => HRes::Snap { count, sum: sum * self.sign, buckets },
            HRes::Sum(s) => HRes::Sum(s * self.sign),
            r => r,
        }
    }
    fn exec_raw(&self, thread: usize, op: &HOpK) -> HRes {
        match op {
            HOpK::Observe(b) => self.h.observe(self.sign * (1u64 << b) as f64),
            HOpK::LocalObserve(b) => self.locals[thread].lock().unwrap().observe(self.sign * (1u64 << b) as f64),
            HOpK::LocalFlush => self.locals[thread].lock().unwrap().flush(),
            HOpK::Collect(0) => {
                let m = self.h.metric();
                let h = m.get_histogram();
                return HRes::Snap {
                    count: h.get_sample_count(),
                    sum: h.get_sample_sum(),
                    buckets: h.get_bucket().iter().map(|b| b.cumulative_count()).collect(),
                };
            }
            HOpK::Collect(_) if self.coll.is_none() => return snap_of(&self.h.collect()),
            HOpK::Collect(1) => return snap_of(&self.coll.as_ref().unwrap().collect()),
            HOpK::Collect(_) => return snap_of(&self.reg.gather()),
            HOpK::GetCount => return HRes::Count(self.h.get_sample_count()),
            HOpK::GetSum => return HRes::Sum(self.h.get_sample_sum()),
        }
        HRes::Unit
    }
}

/// One unit of effect on the shared histogram: a direct observation or a flushed batch.
#[derive(Clone, Debug)]
struct Effect {
    thread: usize,
    mask: u64,
    n: u64,
    invoke: usize,
    response: usize,
    what: String,
}

#[derive(Clone, Copy, PartialEq)]
pub enum Profile {
    /// C02: few collections, attention on the two hand-off windows
    Cut,
    /// C03: long histories, >= 3 collections, getters, sequential and isolation variants
    Conserve,
}

struct Program {
    threads: Vec<Vec<HOpK>>,
    bounds: Vec<f64>,
    via_vec: bool,
    sequential: bool,
    isolation: bool,
    negative: bool,
}

fn gen_program(src: &mut Src, profile: Profile) -> Program {
    let (sequential, isolation) = match profile {
        Profile::Cut => (false, false),
        Profile::Conserve => {
            let k = src.below(8);
            (k == 1 || k == 2, k == 3 || k == 4)
        }
    };
    let nthreads = if sequential { 1 } else { 2 + src.below(3) };
    let max_bits: u32 = 40;
    let mut next_bit = 0u32;
    let mut ncollect = 0;
    let mut threads = vec![];
    let ncollectors = if sequential { 1 } else { 1 + src.below(2) };
    let max_coll = match profile {
        Profile::Cut => 6,
        Profile::Conserve => 8,
    };
    for t in 0..nthreads {
        let collector = t < ncollectors;
        let n = if sequential {
            6 + src.below(35)
        } else {
            match profile {
                Profile::Cut => 1 + src.below(5),
                Profile::Conserve => 2 + src.below(6),
            }
        };
        let mut ops = vec![];
        let mut pending_local = false;
        for _ in 0..n {
            let k = src.below(16);
            let want_collect = if collector || sequential { k < 9 } else { k == 15 && profile == Profile::Conserve };
            let op = if want_collect && ncollect < max_coll && (sequential && k < 4 || !sequential) {
                ncollect += 1;
                HOpK::Collect(src.below(3) as u8)
            } else if (collector || sequential) && k == 9 && profile == Profile::Conserve {
                HOpK::GetCount
            } else if (collector || sequential) && k == 10 && profile == Profile::Conserve {
                HOpK::GetSum
            } else if k >= 13 && pending_local {
                pending_local = false;
                HOpK::LocalFlush
            } else if k >= 11 && next_bit < max_bits {
                next_bit += 1;
                pending_local = true;
                HOpK::LocalObserve(next_bit - 1)
            } else if next_bit < max_bits {
                next_bit += 1;
                HOpK::Observe(next_bit - 1)
            } else {
                HOpK::GetCount
            };
            ops.push(op);
        }
        if pending_local {
            ops.push(HOpK::LocalFlush);
        }
        threads.push(ops);
    }
    // C03 wants at least three collections
    if profile == Profile::Conserve {
        while ncollect < 3 {
            threads[0].push(HOpK::Collect(src.below(3) as u8));
            ncollect += 1;
        }
    } else if ncollect == 0 {
        threads[0].push(HOpK::Collect(src.below(3) as u8));
    }
    // bucket bounds among the powers of two in use, so observations fall below, on and above them
    let nb = src.below(5);
    let mut bounds: Vec<f64> = vec![];
    for _ in 0..nb {
        let j = src.below(next_bit.max(1) as usize + 1) as u32;
        let b = (1u64 << j) as f64;
        if !bounds.contains(&b) {
            bounds.push(b);
        }
    }
    if nb == 4 && src.chance(48) {
        // wide configuration (the number of buckets is not limited by the library): 33-40 bounds
        for k in 0..(33 + src.below(8)) {
            let b = 0.75 * (1u64 << (k / 2)) as f64 * if k % 2 == 0 { 1.0 } else { 1.5 };
            if !bounds.contains(&b) {
                bounds.push(b);
            }
        }
        if src.chance(128) {
            // ... half of them with 70 further bounds below zero, so that every (positive) observation lands in a bucket whose index
            // is beyond 64
            for k in 1..=70 {
                bounds.push(-(k as f64));
            }
        }
    }
    bounds.sort_by(|a, b| a.partial_cmp(b).unwrap());
    let via_vec = src.chance(80);
    // a quarter of the programs observe negative numbers only (the running sum is negative at every collection)
    let negative = src.chance(64);
    if negative {
        // bounds on both sides of the observations
        let neg: Vec<f64> = bounds.iter().take(2).map(|b| -*b).collect();
        bounds.extend(neg);
        bounds.sort_by(|a, b| a.partial_cmp(b).unwrap());
        bounds.dedup();
    }
    Program { threads, bounds, via_vec, sequential, isolation, negative }
}

/// Isolation schedule (C03's termination clause): walk until a chosen collect has been invoked
/// and `delay` more steps have passed; from then on only that collect's thread and the workers
/// that are in the middle of an operation may run, each of those until its operation returns.
struct Isolation {
    inner: Box<dyn Chooser>,
    cthread: usize,
    cop: usize,
    delay: usize,
    since: Option<usize>,
    allowed: Option<Vec<usize>>,
    frozen_mid_program: usize,
    pub starved: bool,
    pub done: bool,
}

impl Chooser for Isolation {
    fn choose(&mut self, d: &Decision) -> usize {
        if d.ops_done[self.cthread] > self.cop {
            self.done = true;
            return HALT;
        }
        if self.allowed.is_none() {
            let invoked = d.ops_done[self.cthread] == self.cop && d.in_op[self.cthread];
            if invoked {
                let s = *self.since.get_or_insert(d.step);
                if d.step >= s + self.delay {
                    let mut a = vec![self.cthread];
                    for t in 0..d.in_op.len().saturating_sub(1) {
                        if t != self.cthread {
                            if d.in_op[t] {
                                a.push(t);
                            } else if d.pending[t].is_some() {
                                self.frozen_mid_program += 1;
                            }
                        }
                    }
                    self.allowed = Some(a);
                }
            }
        }
        match &mut self.allowed {
            None => self.inner.choose(d),
            Some(a) => {
                // a helper whose operation has returned is parked for good
                a.retain(|t| *t == self.cthread || d.in_op[*t] || matches!(d.pending[*t], Some(Ann::OpEnd(_))));
                let mut cand: Vec<usize> = d.enabled.iter().copied().filter(|t| a.contains(t)).collect();
                if cand.is_empty() {
                    // allowed threads that are waiting in a loop of plain loads may go round again; one that has done so 3000
                    // times without anything changing is waiting for a frozen thread
                    cand = d.waiting.iter().filter(|(t, f)| a.contains(t) && *f < 3000).map(|(t, _)| *t).collect();
                }
                if cand.is_empty() {
                    self.starved = true;
                    return HALT;
                }
                // helpers first (so that they finish), then the collector
                *cand.iter().find(|t| **t != self.cthread).unwrap_or(&cand[0])
            }
        }
    }
    fn fail_spuriously(&mut self, d: &Decision, t: usize) -> bool {
        if self.allowed.is_some() {
            false
        } else {
            self.inner.fail_spuriously(d, t)
        }
    }
}

pub fn run_hist(src: &mut Src, rep: &mut Report, profile: Profile) -> Verdict {
    let prog = gen_program(src, profile);
    let nthreads = prog.threads.len();
    let reg = Registry::new();
    let opts = HistogramOpts::new("h", "help").buckets(prog.bounds.clone());
    // a standalone program without local-histogram operations runs on ONE handle shared by reference: it is not registered,
    // has no local companions and no clone of it exists anywhere
    let uses_locals = prog.threads.iter().any(|p| p.iter().any(|o| matches!(o, HOpK::LocalObserve(_) | HOpK::LocalFlush)));
    let single_handle = !prog.via_vec && !uses_locals;
    let (h, coll): (Histogram, Option<Arc<dyn Collector>>) = if prog.via_vec {
        let v = HistogramVec::new(opts, &["l"]).unwrap();
        reg.register(Box::new(v.clone())).unwrap();
        (v.with_label_values(&["x"]), Some(Arc::new(v)))
    } else if single_handle {
        (Histogram::with_opts(opts).unwrap(), None)
    } else {
        let h = Histogram::with_opts(opts).unwrap();
        reg.register(Box::new(h.clone())).unwrap();
        (h.clone(), Some(Arc::new(h)))
    };
    if single_handle {
        rep.class("single-handle-shared-by-reference");
    }
    let bounds: Vec<f64> = if prog.bounds.is_empty() { crate::props::c08::DEFAULT_BUCKETS.to_vec() } else { prog.bounds.clone() };
    let locals = if single_handle { vec![] } else { (0..nthreads).map(|_| Arc::new(Mutex::new(h.local()))).collect() };
    let sign = if prog.negative { -1.0 } else { 1.0 };
    if prog.negative {
        rep.class("negative-observations");
    }
    let sys = Sys { h, coll, reg, locals, sign };
    let total: usize = prog.threads.iter().map(|p| p.len()).sum();
    let threads: Vec<Vec<OpFn<HRes>>> = prog
        .threads
        .iter()
        .enumerate()
        .map(|(t, ops)| {
            ops.iter()
                .map(|op| {
                    let s = &sys;
                    let op = op.clone();
                    Box::new(move || s.exec(t, &op)) as OpFn<HRes>
                })
                .collect()
        })
        .collect();

    // the quiescent reads run as a held-back finalizer thread under the scheduler, so that a
    // collect that would spin for ever is a deterministic 'stuck' verdict and not a hang
    let mut threads = threads;
    {
        let fin_ops: Vec<HOpK> = vec![HOpK::Collect(1), HOpK::GetCount, HOpK::GetSum];
        threads.push(
            fin_ops
                .into_iter()
                .map(|op| {
                    let s = &sys;
                    Box::new(move || s.exec(0, &op)) as OpFn<HRes>
                })
                .collect(),
        );
    }
    let fin_thread = nthreads;

    // ---- schedule
    let mut iso_target: Option<(usize, usize)> = None;
    let base = make_chooser(src, nthreads, total * 8 + 4, rep);
    let mut iso: Option<Isolation> = None;
    let mut plain: Option<Box<dyn Chooser>> = None;
    if prog.isolation && !crate::schedsrc::enumerating() && !crate::schedsrc::free_mode() {
        let colls: Vec<(usize, usize)> = prog
            .threads
            .iter()
            .enumerate()
            .flat_map(|(t, ops)| ops.iter().enumerate().filter(|(_, o)| matches!(o, HOpK::Collect(_))).map(move |(i, _)| (t, i)))
            .collect();
        let (ct, ci) = colls[src.below(colls.len())];
        iso_target = Some((ct, ci));
        iso = Some(Isolation { inner: base, cthread: ct, cop: ci, delay: src.below(8), since: None, allowed: None, frozen_mid_program: 0, starved: false, done: false });
        rep.class("schedule:isolation");
    } else {
        plain = Some(base);
    }
    let exec = match (&mut iso, &mut plain) {
        (Some(i), _) => run_opts(threads, i, 20_000, true),
        (_, Some(p)) => run_opts(threads, p.as_mut(), 20_000, true),
        _ => unreachable!(),
    };

    let prog_desc = || format!("bounds {:?}, via_vec={}, program {:?}", prog.bounds, prog.via_vec, prog.threads);
    let mut isolation_frozen = 0;
    match &exec.verdict {
        ExecVerdict::Completed => {}
        ExecVerdict::StepLimit => return Verdict::Discard("step limit"),
        ExecVerdict::Panic(m) => return fail(format!("panic:{}", m.chars().take(40).collect::<String>()), format!("{} ;; {}", m, prog_desc())),
        ExecVerdict::Stuck { spinners, blocked } => {
            let collecting: Vec<usize> = spinners
                .iter()
                .copied()
                .filter(|t| exec.ops.iter().any(|o| o.thread == *t && o.response.is_none() && (o.thread == fin_thread || matches!(prog.threads[o.thread][o.idx], HOpK::Collect(_)))))
                .collect();
            let sig = if !collecting.is_empty() { "collect-never-returns" } else { "stuck" };
            return fail(
                sig,
                format!("no thread can make progress: spinning {:?} (in collect: {:?}), blocked {:?} ;; {}", spinners, collecting, blocked, prog_desc()),
            );
        }
        ExecVerdict::Halted => {
            let i = iso.as_ref().unwrap();
            isolation_frozen = i.frozen_mid_program;
            if i.starved {
                let (ct, ci) = iso_target.unwrap();
                return fail(
                    "collect-waits-for-frozen-thread",
                    format!(
                        "collect (thread {} op {}) cannot return although every operation that was in progress has been allowed to finish; only threads that were not inside any operation are frozen ;; {}",
                        ct, ci, prog_desc()
                    ),
                );
            }
        }
    }
    let halted = exec.verdict == ExecVerdict::Halted;

    // ---- effects and snapshots
    let mut effects: Vec<Effect> = vec![];
    let mut pending: Vec<Vec<u32>> = vec![vec![]; nthreads];
    let mut snaps: Vec<(usize, usize, u64, f64, Vec<u64>, String)> = vec![]; // invoke, response, count, sum, buckets, who
    let mut counts: Vec<(usize, usize, u64)> = vec![];
    // operations in per-thread program order (exec.ops is ordered by invocation, which is program order per thread)
    let inf = usize::MAX / 2;
    let mut fin_results: Vec<(usize, usize, HRes)> = vec![];
    for o in &exec.ops {
        if o.thread == fin_thread {
            if let (Some(r), Some(resp)) = (&o.result, o.response) {
                fin_results.push((o.invoke, resp, r.clone()));
            }
            continue;
        }
        let op = &prog.threads[o.thread][o.idx];
        let resp = o.response.unwrap_or(inf);
        match op {
            HOpK::Observe(b) => effects.push(Effect { thread: o.thread, mask: 1 << b, n: 1, invoke: o.invoke, response: resp, what: format!("observe(2^{}) by t{}", b, o.thread) }),
            HOpK::LocalObserve(b) => {
                if o.response.is_some() {
                    pending[o.thread].push(*b);
                }
            }
            HOpK::LocalFlush => {
                let bits = std::mem::take(&mut pending[o.thread]);
                if !bits.is_empty() {
                    effects.push(Effect {
                        thread: o.thread,
                        mask: bits.iter().map(|b| 1u64 << b).sum(),
                        n: bits.len() as u64,
                        invoke: o.invoke,
                        response: resp,
                        what: format!("flush of batch {:?} by t{}", bits, o.thread),
                    });
                }
            }
            HOpK::Collect(via) => {
                if let Some(HRes::Snap { count, sum, buckets }) = &o.result {
                    snaps.push((o.invoke, resp, *count, *sum, buckets.clone(), format!("collect via {} by t{} [{},{}]", via, o.thread, o.invoke, resp)));
                }
            }
            HOpK::GetCount => {
                if let Some(HRes::Count(c)) = &o.result {
                    counts.push((o.invoke, resp, *c));
                }
            }
            HOpK::GetSum => {}
        }
    }
    let quiescent = !halted;
    let mut fin_count = None;
    let mut fin_sum = None;
    if quiescent {
        // the snapshot taken after all threads have finished (finalizer thread)
        for (inv, resp, r) in &fin_results {
            match r {
                HRes::Snap { count, sum, buckets } => snaps.push((*inv, *resp, *count, *sum, buckets.clone(), "final collect after quiescence".into())),
                HRes::Count(c) => fin_count = Some(*c),
                HRes::Sum(s) => fin_sum = Some(*s),
                _ => {}
            }
        }
        if fin_count.is_none() || fin_sum.is_none() || fin_results.len() != 3 {
            return fail("final-reads-missing", format!("the finalizer did not complete ;; {}", prog_desc()));
        }
    }
    let all_mask: u64 = effects.iter().map(|e| e.mask).sum();
    let hist_desc = || {
        let e: Vec<String> = effects.iter().map(|e| format!("{} [{},{}]", e.what, e.invoke, if e.response == inf { "-".into() } else { e.response.to_string() })).collect();
        let s: Vec<String> = snaps.iter().map(|s| format!("{} -> count={} sum={} buckets={:?}", s.5, s.2, s.3, s.4)).collect();
        format!("{} ;; effects: {} ;; snapshots: {}", prog_desc(), e.join("; "), s.join("; "))
    };
    let mut decoded: Vec<u64> = vec![];
    for (inv, resp, count, sum, buckets, who) in &snaps {
        // S is decoded from the sum
        if !(sum.is_finite() && *sum >= 0.0 && sum.fract() == 0.0 && *sum < 9.0e15) {
            return fail("snapshot-sum-undecodable", format!("{}: sum {} is not a sum of distinct observations ;; {}", who, sum, hist_desc()));
        }
        let s = *sum as u64;
        if s & !all_mask != 0 {
            return fail("snapshot-sum-undecodable", format!("{}: sum {:#b} contains bits that no observation has (lost or doubled update) ;; {}", who, s, hist_desc()));
        }
        decoded.push(s);
        let mut n = 0u64;
        for e in &effects {
            let part = s & e.mask;
            if part != 0 && part != e.mask {
                return fail("batch-torn", format!("{}: contains only part of {} ;; {}", who, e.what, hist_desc()));
            }
            if part != 0 {
                n += e.n;
            }
            if e.response < *inv && part == 0 {
                return fail("completed-observation-missing", format!("{}: misses {} which completed at step {} ;; {}", who, e.what, e.response, hist_desc()));
            }
            if e.invoke > *resp && part != 0 {
                return fail("future-observation-visible", format!("{}: contains {} which started at step {} ;; {}", who, e.what, e.invoke, hist_desc()));
            }
        }
        if *count != n {
            return fail("count-differs-from-sum", format!("{}: sample count {} but its sum describes {} observations ;; {}", who, count, n, hist_desc()));
        }
        let want: Vec<u64> = bounds.iter().map(|b| (0..50).filter(|i| s & (1u64 << i) != 0 && sign * ((1u64 << i) as f64) <= *b).count() as u64).collect();
        if *buckets != want {
            return fail("buckets-differ-from-sum", format!("{}: cumulative buckets {:?} but the set it describes gives {:?} for bounds {:?} ;; {}", who, buckets, want, bounds, hist_desc()));
        }
        // never a thread's later observation without its earlier ones
        for t in 0..nthreads {
            let mine: Vec<&Effect> = effects.iter().filter(|e| e.thread == t).collect();
            let mut missing_earlier: Option<&Effect> = None;
            for e in mine {
                if s & e.mask == 0 {
                    missing_earlier.get_or_insert(e);
                } else if let Some(m) = missing_earlier {
                    return fail("not-prefix-closed", format!("{}: contains {} but not the earlier {} ;; {}", who, e.what, m.what, hist_desc()));
                }
            }
        }
    }
    // snapshots ordered in real time describe growing sets
    for (i, a) in snaps.iter().enumerate() {
        for (j, b) in snaps.iter().enumerate() {
            if a.1 < b.0 && decoded[i] & !decoded[j] != 0 {
                return fail("snapshot-lost-observations", format!("{} describes {:#b} but the later {} describes {:#b} ;; {}", a.5, decoded[i], b.5, decoded[j], hist_desc()));
            }
        }
    }
    // get_sample_count while observers run: bounded by completed-before and started-before-response
    for (inv, resp, c) in &counts {
        let lo: u64 = effects.iter().filter(|e| e.response < *inv).map(|e| e.n).sum();
        let hi: u64 = effects.iter().filter(|e| e.invoke < *resp).map(|e| e.n).sum();
        if *c < lo || *c > hi {
            return fail("sample-count-out-of-bounds", format!("get_sample_count at [{},{}] returned {} but {} observations had completed before and {} had started ;; {}", inv, resp, c, lo, hi, hist_desc()));
        }
    }
    if quiescent {
        let total_n: u64 = effects.iter().map(|e| e.n).sum();
        let fin = snaps.last().unwrap();
        if decoded[snaps.len() - 1] != all_mask || fin.2 != total_n {
            return fail("final-snapshot-incomplete", format!("after all threads finished the snapshot describes {:#b} ({} observations) but all observations are {:#b} ({}) ;; {}", decoded[snaps.len() - 1], fin.2, all_mask, total_n, hist_desc()));
        }
        let gc = fin_count.unwrap();
        let gs = fin_sum.unwrap();
        if gc != total_n || gs != all_mask as f64 {
            return fail("getters-disagree-with-final-snapshot", format!("get_sample_count={} get_sample_sum={} but all observations are {} with sum {} ;; {}", gc, gs, total_n, all_mask, hist_desc()));
        }
    }

    // ---- happens-before invariant over the trace
    let hbr = hb::check(&exec.trace, nthreads + 1);
    if let Some(v) = hbr.violation {
        return fail("swap-not-ordered-by-happens-before", format!("{} ;; {}", v, prog_desc()));
    }
    rep.count("hb_swap_accesses_checked", hbr.swaps_checked as u64);
    rep.count("hb_pairs_checked", hbr.pairs_checked as u64);

    // ---- non-triviality
    // an observation (or flush) in flight during a collection: executed >= 1 and not all of its sync events
    let mut inflight = false;
    let mut overlapping_collects = false;
    for (i, s) in snaps.iter().enumerate() {
        for e in &effects {
            if e.invoke < s.1 && s.0 < e.response {
                // the observation / flush executed one of its atomic steps while the collection was in progress
                let lo = s.0.max(e.invoke);
                let hi = s.1.min(e.response);
                if exec.trace.iter().any(|t| t.thread == e.thread && t.step > lo && t.step < hi && matches!(t.ann, Ann::Sync(_)) && t.outcome.is_some()) {
                    inflight = true;
                }
            }
        }
        for (j, s2) in snaps.iter().enumerate() {
            if i != j && s.0 < s2.1 && s2.0 < s.1 {
                overlapping_collects = true;
            }
        }
    }
    let ncoll = snaps.len();
    match profile {
        Profile::Cut => rep.nontrivial = inflight && exec.preempt_inside_op > 0,
        Profile::Conserve => rep.nontrivial = (ncoll >= 3 && inflight) || (halted && isolation_frozen >= 1) || (prog.sequential && ncoll >= 3 && effects.len() >= 3),
    }
    if inflight {
        rep.class("observation-in-flight-during-collect");
    }
    if overlapping_collects {
        rep.class("two-collections-overlap");
    }
    if effects.iter().any(|e| e.n > 1) {
        rep.class("batch-flush");
    }
    if ncoll >= 3 {
        rep.class("3+-collections");
    }
    if prog.sequential {
        rep.class("sequential-history");
    }
    if halted {
        rep.class("isolation-run-completed");
        if isolation_frozen >= 1 {
            rep.class("isolation:thread-frozen-mid-program");
        }
    }
    if prog.via_vec {
        rep.class("vector-child");
    }
    if exec.spurious_injected > 0 {
        rep.class("spurious-cas-failure-injected");
    }
    rep.count("steps", exec.trace.len() as u64);
    rep.count("context_switches", exec.switches as u64);
    if rep.want_sample {
        rep.sample = Some(format!("{} ;; {} steps, {} switches, {} pre-emptions inside an operation", hist_desc(), exec.trace.len(), exec.switches, exec.preempt_inside_op));
    }
    Verdict::Pass
}

pub struct C02;
pub struct C03;

impl Property for C02 {
    fn id(&self) -> &'static str {
        "C02"
    }
    fn rule(&self) -> &'static str {
        "case = one Histogram (direct or HistogramVec child, registered) with 0-4 bucket bounds among the powers of two in use (4% of cases: 33-40 further bounds; a quarter of the programs observe -(2^i) instead of 2^i, with bounds on both sides of zero); 2-4 \
         threads: 1-2 collectors (Metric::metric / Collector::collect / Registry::gather, up to 6 collections) and observers \
         (observe(2^i) with a unique bit per observation, local observe + flush batches), 1-5 operations each; schedule = walk / PCT / \
         window (pause a thread before its k-th atomic step while another completes whole operations) with up to 3 injected spurious \
         compare-exchange failures. Oracle per snapshot: the sum decodes to a set S of whole observations/batches, count = |S|, every \
         cumulative bucket = |{v in S : v <= bound}|, S contains everything completed before the collection began, nothing started \
         after it returned, is prefix-closed per thread; plus the happens-before invariant on every swap of the trace. Non-trivial: \
         an observation or flush has executed some but not all of its atomic steps while a collection runs, and a thread was \
         pre-empted inside an operation. Distinct = decoded choices."
    }
    fn assumptions(&self) -> Vec<&'static str> {
        vec![
            "executions are sequentially consistent interleavings of the hooked atomic / lock operations; weak-memory behaviour is addressed only through the happens-before invariant over the reported memory orderings",
            "observations are distinct powers of two below 2^40 so that a sum decodes uniquely",
        ]
    }
    fn budget(&self, tier: Tier) -> Budget {
        match tier {
            Tier::Quick => Budget { cases: 20_000, min_len: 8, max_len: 300 },
            Tier::Thorough => Budget { cases: 700_000, min_len: 8, max_len: 360 },
        }
    }
    fn post(&self, tier: Tier, seed: u64, stats: &mut crate::engine::Stats) -> Result<(), (String, String, Vec<u8>)> {
        crate::exhaust::bounded_enumeration(self, tier, seed, stats)?;
        crate::freerun::free_runs(self, tier, seed, stats)
    }
    fn run(&self, src: &mut Src, rep: &mut Report) -> Verdict {
        run_hist(src, rep, Profile::Cut)
    }
}

impl Property for C03 {
    fn id(&self) -> &'static str {
        "C03"
    }
    fn rule(&self) -> &'static str {
        "case = as C02 but long histories: >= 3 (up to 8) collections by 1-2 collector threads, direct observers and local batch \
         flushes, get_sample_count / get_sample_sum calls, 2-7 operations per thread; 2/8 of the cases are purely sequential \
         histories of up to 40 operations run by a single scheduled worker (a collect that waits for ever is then a deterministic \
         'stuck' verdict), 2/8 are isolation runs (from a generated step after a chosen collect was invoked, only that thread and the \
         workers in the middle of an operation may run, each until its operation returns; the collect must still return). Oracle: \
         every snapshot is a consistent cut (as C02), snapshots ordered in real time describe growing sets, batches are atomic, \
         get_sample_count is bounded by completed/started observations, the snapshot after quiescence describes exactly all \
         observations and the getters agree, no run ends stuck. Non-trivial: >= 3 collections with an observation in flight, or an \
         isolation run that froze a thread mid-program, or a sequential history with >= 3 collections. Distinct = decoded choices."
    }
    fn assumptions(&self) -> Vec<&'static str> {
        vec![
            "liveness is reduced to the finite checks 'no enabled step while work remains' and the isolation schedule; fairness-dependent starvation is not examined",
            "get_sample_sum concurrent with observers is not compared with anything (only at quiescence)",
        ]
    }
    fn budget(&self, tier: Tier) -> Budget {
        match tier {
            Tier::Quick => Budget { cases: 16_000, min_len: 8, max_len: 400 },
            Tier::Thorough => Budget { cases: 600_000, min_len: 8, max_len: 460 },
        }
    }
    fn post(&self, tier: Tier, seed: u64, stats: &mut crate::engine::Stats) -> Result<(), (String, String, Vec<u8>)> {
        crate::exhaust::bounded_enumeration(self, tier, seed, stats)?;
        crate::freerun::free_runs(self, tier, seed, stats)
    }
    fn run(&self, src: &mut Src, rep: &mut Report) -> Verdict {
        run_hist(src, rep, Profile::Conserve)
    }
}
