//! C09 — only well-formed, pairwise distinct names reach an exposed sample.

use std::collections::HashMap;

use prometheus::core::{Collector, Desc};
use prometheus::{
    Counter, CounterVec, Gauge, GaugeVec, Histogram, HistogramOpts, HistogramVec, IntCounter, IntCounterVec, IntGauge,
    IntGaugeVec, Opts, PullingGauge, Registry,
};

use crate::engine::{fail, Budget, Property, Report, Tier, Verdict};
use crate::ensure;
use crate::src::Src;

pub struct C09;

/// Independent byte-level recognisers for the two regular languages of the statement.
pub fn metric_name_ok(s: &str) -> bool {
    let b = s.as_bytes();
    if b.is_empty() {
        return false;
    }
    let first = b[0];
    if !(matches!(first, b'a'..=b'z' | b'A'..=b'Z') || first == b'_' || first == b':') {
        return false;
    }
    b.iter().all(|c| matches!(*c, b'a'..=b'z' | b'A'..=b'Z' | b'0'..=b'9') || *c == b'_' || *c == b':')
}

pub fn label_name_ok(s: &str) -> bool {
    let b = s.as_bytes();
    if b.is_empty() {
        return false;
    }
    let first = b[0];
    if !(matches!(first, b'a'..=b'z' | b'A'..=b'Z') || first == b'_') {
        return false;
    }
    b.iter().all(|c| matches!(*c, b'a'..=b'z' | b'A'..=b'Z' | b'0'..=b'9') || *c == b'_')
}

const GOOD_NAME_PARTS: &[&str] = &["m", "req", "a_b", "ns", "x:y", "_u", "T9", "total", ":r"];
const BAD_NAME_PARTS: &[&str] =
    &["9x", "a-b", "a b", "é", "ß", "а", "x٣", "Ａ", "x１", "a.b", "a{", "", "\n", "a\u{0}", "a/b", "naïve", "x²", "Ⅷ", "x_ǅ"];
const GOOD_LABELS: &[&str] = &["a", "b", "code", "x_y", "_z", "L0", "le2", "__name__", "quantile"];
const BAD_LABELS: &[&str] =
    &["", "9a", "a:b", "a-b", "a b", "é", "ß", "а", "٣", "x٣", "Ａ", "a１", "a.b", "x²", "ǅ", "a\n", "\u{0}"];
const REG_LABELS: &[&str] = &["r1", "env", "r_2", "dc"];

/// Non-ASCII characters that a Unicode case mapping turns into pure ASCII identifier text (KELVIN SIGN
/// -> k, LONG S -> S, sharp s -> SS, the ff/fi/fl/st ligatures, ...): exactly the characters a validator
/// that folds case with the Unicode instead of the ASCII mapping accepts by mistake. Computed, not
/// hand-picked; each entry is the character embedded in an otherwise valid name.
fn confusables() -> &'static Vec<&'static str> {
    static POOL: std::sync::OnceLock<Vec<&'static str>> = std::sync::OnceLock::new();
    POOL.get_or_init(|| {
        let mut v: Vec<&'static str> = vec![];
        for u in 0x80u32..0x11_0000 {
            let Some(c) = char::from_u32(u) else { continue };
            let ascii_ident = |s: String| !s.is_empty() && s.chars().all(|x| x.is_ascii_alphanumeric() || x == '_');
            if ascii_ident(c.to_lowercase().collect()) || ascii_ident(c.to_uppercase().collect()) {
                v.push(Box::leak(format!("a{}", c).into_boxed_str()));
                v.push(Box::leak(format!("{}a", c).into_boxed_str()));
            }
        }
        v
    })
}

/// Long identifiers: valid ones, and ones whose single invalid character sits just before / at / after a typical
/// chunk or buffer boundary (8, 16, 32, 64, 128, 256, 1024 bytes) - a validator that looks at a prefix, or that works
/// on fixed-size chunks, goes wrong exactly there. (valid, invalid)
fn long_parts() -> &'static (Vec<&'static str>, Vec<&'static str>) {
    static P: std::sync::OnceLock<(Vec<&'static str>, Vec<&'static str>)> = std::sync::OnceLock::new();
    P.get_or_init(|| {
        let mut good: Vec<&'static str> = vec![];
        let mut bad: Vec<&'static str> = vec![];
        for n in [7usize, 8, 9, 15, 16, 17, 31, 32, 33, 63, 64, 65, 127, 128, 129, 255, 256, 257, 1023, 1024, 1025] {
            good.push(Box::leak(format!("{}z", "a".repeat(n)).into_boxed_str()));
            for c in ["-", "é", " ", "\u{212a}"] {
                bad.push(Box::leak(format!("{}{}", "a".repeat(n), c).into_boxed_str()));
                bad.push(Box::leak(format!("{}{}b", "a".repeat(n), c).into_boxed_str()));
            }
        }
        (good, bad)
    })
}

fn gen_part(src: &mut Src, good: &[&'static str], bad: &[&'static str], p_bad: u32) -> &'static str {
    if src.chance(p_bad) {
        if src.chance(48) {
            let c = confusables();
            return c[src.below(c.len())];
        }
        if src.chance(24) {
            let l = &long_parts().1;
            return l[src.below(l.len())];
        }
        *src.pick(bad)
    } else {
        if src.chance(10) {
            let l = &long_parts().0;
            return l[src.below(l.len())];
        }
        *src.pick(good)
    }
}

fn fq(ns: &str, sub: &str, name: &str) -> String {
    if name.is_empty() {
        return String::new();
    }
    let mut parts = vec![];
    if !ns.is_empty() {
        parts.push(ns);
    }
    if !sub.is_empty() {
        parts.push(sub);
    }
    parts.push(name);
    parts.join("_")
}

#[derive(Clone, Copy, Debug, PartialEq)]
enum Ctor {
    Counter,
    IntCounter,
    Gauge,
    IntGauge,
    Histogram,
    CounterVec,
    IntCounterVec,
    GaugeVec,
    IntGaugeVec,
    HistogramVec,
    Pulling,
    Desc,
}
const CTORS: &[Ctor] = &[
    Ctor::Counter,
    Ctor::CounterVec,
    Ctor::Histogram,
    Ctor::HistogramVec,
    Ctor::Gauge,
    Ctor::IntCounter,
    Ctor::IntGauge,
    Ctor::IntCounterVec,
    Ctor::GaugeVec,
    Ctor::IntGaugeVec,
    Ctor::Pulling,
    Ctor::Desc,
];

/// Simultaneous scrapes (statistical, free-running threads): a fresh registry with `nlabels` common labels and an
/// optional prefix, a counter and a one-child counter vector registered; `nthreads` threads released together call
/// gather(), then gather() is called once more alone. Every sample of every result must carry valid, pairwise distinct
/// label names and every family a valid name. case = [0xFE x 5, nthreads, nlabels, prefix?].
fn gather_race(cfg: &[u8], attempts: usize) -> Result<(), (String, String)> {
    let nthreads = (cfg[5] as usize).clamp(2, 4);
    let nlabels = (cfg[6] as usize).clamp(1, 3);
    let prefix = if cfg[7] % 2 == 1 { Some("p".to_string()) } else { None };
    let check = |who: &str, round: usize, fams: &[prometheus::proto::MetricFamily]| -> Result<(), (String, String)> {
        for f in fams {
            if !metric_name_ok(f.name()) {
                return Err(("invalid-family-name-exposed".into(), format!("simultaneous gathers, round {}, {}: family name {:?}", round, who, f.name())));
            }
            for m in f.get_metric() {
                let mut names: Vec<&str> = m.get_label().iter().map(|l| l.name()).collect();
                if let Some(n) = names.iter().find(|n| !label_name_ok(n)) {
                    return Err(("invalid-label-name-exposed".into(), format!("simultaneous gathers, round {}, {}: label name {:?}", round, who, n)));
                }
                let shown = format!("{:?}", names);
                names.sort();
                if names.windows(2).any(|w| w[0] == w[1]) {
                    return Err((
                        "duplicate-label-name-exposed".into(),
                        format!("{} threads gathered a registry with {} common labels at the same moment (round {}); {} then shows a sample with labels {}", nthreads, nlabels, round, who, shown),
                    ));
                }
            }
        }
        Ok(())
    };
    for round in 0..attempts {
        let common: HashMap<String, String> = ["zone", "rack", "host"].iter().take(nlabels).map(|k| (k.to_string(), "v".to_string())).collect();
        let Ok(reg) = Registry::new_custom(prefix.clone(), Some(common)) else { return Ok(()) };
        let c = Counter::with_opts(Opts::new("c", "h")).unwrap();
        let v = CounterVec::new(Opts::new("cv", "h").const_label("k", "1"), &["kind"]).unwrap();
        v.with_label_values(&["x"]).inc();
        let _ = reg.register(Box::new(c));
        let _ = reg.register(Box::new(v));
        let ready = std::sync::atomic::AtomicUsize::new(0);
        let results: Vec<Vec<prometheus::proto::MetricFamily>> = std::thread::scope(|s| {
            let hs: Vec<_> = (0..nthreads)
                .map(|_| {
                    let (reg, ready) = (&reg, &ready);
                    s.spawn(move || {
                        ready.fetch_add(1, std::sync::atomic::Ordering::SeqCst);
                        while ready.load(std::sync::atomic::Ordering::SeqCst) < nthreads {
                            crate::iohelp::spin_or_yield();
                        }
                        reg.gather()
                    })
                })
                .collect();
            hs.into_iter().map(|h| h.join().unwrap_or_default()).collect()
        });
        for (i, r) in results.iter().enumerate() {
            check(&format!("the gather of thread {}", i), round, r)?;
        }
        check("a later gather made alone", round, &reg.gather())?;
    }
    Ok(())
}

/// One cell of the exhaustive scan: scalar value `u` as leading / non-leading character of a metric
/// name and of a label name, through `Desc::new`.
fn scan_cell(u: u32, variant: u8) -> Result<(), (String, String)> {
    let Some(c) = char::from_u32(u) else { return Ok(()) };
    // (variants 4-7: the character inside a long run of lower-case letters and underscores, in the first and in the second
    // eight-byte block - where word-at-a-time "fast paths" for the common snake_case name do their work)
    let (name, is_label) = match variant % 8 {
        0 => (format!("{}ab", c), false),
        1 => (format!("a{}b", c), false),
        2 => (format!("{}ab", c), true),
        3 => (format!("a{}b", c), true),
        4 => (format!("abc{}defgh_ijk", c), false),
        5 => (format!("abc{}defgh_ijk", c), true),
        6 => (format!("abcdefgh_jk{}lmnopqrs", c), false),
        _ => (format!("abcdefgh_jk{}lmnopqrs", c), true),
    };
    let (r, want) = if is_label {
        (Desc::new("m".into(), "h".into(), vec![name.clone()], HashMap::new()), label_name_ok(&name))
    } else {
        (Desc::new(name.clone(), "h".into(), vec![], HashMap::new()), metric_name_ok(&name))
    };
    if r.is_ok() != want {
        let sig = if r.is_ok() {
            if is_label { "invalid-label-name-accepted" } else { "invalid-metric-name-accepted" }
        } else {
            "valid-metric-rejected"
        };
        return Err((sig.to_string(), format!("Desc::new with {} {:?} (U+{:04X} {}) returned {} but the statement requires {}", if is_label { "label name" } else { "metric name" }, name, u, if variant % 8 >= 4 { "inside a long snake_case name" } else if variant % 2 == 0 { "leading" } else { "non-leading" }, if r.is_ok() { "Ok" } else { "Err" }, if want { "Ok" } else { "Err" })));
    }
    Ok(())
}

impl Property for C09 {
    fn id(&self) -> &'static str {
        "C09"
    }
    fn post(&self, _tier: Tier, _seed: u64, stats: &mut crate::engine::Stats) -> Result<(), (String, String, Vec<u8>)> {
        // exhaustive over a finite sub-space: every Unicode scalar value as leading and as non-leading
        // character of a short metric name and label name, and inside a long snake_case name in its first and second eight-byte
        // block (8 x 1 112 064 constructor calls)
        let found: std::sync::Mutex<Option<(String, String, Vec<u8>)>> = std::sync::Mutex::new(None);
        let cells = std::sync::atomic::AtomicU64::new(0);
        std::thread::scope(|s| {
            for k in 0..8u32 {
                let found = &found;
                let cells = &cells;
                s.spawn(move || {
                    let mut n = 0u64;
                    let mut u = k;
                    while u < 0x11_0000 {
                        for variant in 0..8u8 {
                            n += 1;
                            if let Err((sig, d)) = scan_cell(u, variant) {
                                let mut f = found.lock().unwrap();
                                if f.is_none() {
                                    let b = u.to_be_bytes();
                                    *f = Some((sig, d, vec![0xFF, b[0], b[1], b[2], b[3], variant]));
                                }
                            }
                        }
                        u += 8;
                    }
                    cells.fetch_add(n, std::sync::atomic::Ordering::Relaxed);
                });
            }
        });
        stats.extra.push(("code_point_scan_cells".into(), serde_json::json!(cells.load(std::sync::atomic::Ordering::Relaxed))));
        stats.extra.push(("code_point_scan_exhaustive".into(), serde_json::json!(true)));
        if let Some(f) = found.into_inner().unwrap() {
            return Err(f);
        }
        // the "as a result" clause under simultaneous scrapes: free-running threads gather a labelled registry at the
        // same moment (first scrape included), then one more gather is made alone
        let mut rounds = 0u64;
        for nthreads in 2..=3u8 {
            for nlabels in 1..=3u8 {
                for prefix in 0..=1u8 {
                    let cfg = [0xFE, 0xFE, 0xFE, 0xFE, 0xFE, nthreads, nlabels, prefix];
                    let attempts = if _tier == Tier::Quick { 250 } else { 20_000 };
                    rounds += attempts as u64;
                    if let Err((sig, d)) = gather_race(&cfg, attempts) {
                        return Err((sig, d, cfg.to_vec()));
                    }
                }
            }
        }
        stats.extra.push(("simultaneous_gather_rounds".into(), serde_json::json!(rounds)));
        Ok(())
    }
    fn rule(&self) -> &'static str {
        "case = constructor (5 scalar with_opts, 5 *Vec::new, PullingGauge::new, Desc::new) x namespace/subsystem/name/help/ \
         constant and variable label names drawn from pools mixing valid identifiers with empty, leading digit, ':' in labels, \
         '-', blank, non-ASCII letters and digits (e-acute, sharp s, Cyrillic a, Arabic-Indic 3, full-width A/1, superscript 2, \
         roman numeral, titlecase digraph), `le`, `__name__`, names repeated across the constant and variable sets, occasionally 4-16 distinct variable labels with at most one clash; then the accepted \
         metric gets children and is gathered through Registry::new_custom(prefix, common labels) drawn from the same pools (a final \
         stage gathers labelled registries from 2-3 free-running threads at the same moment and once more afterwards), in \
         half of the cases with constant labels together with a second collector of the same kind under the same name (another \
         constant-label value) so that gather() merges two families. \
         Oracle: independent byte-level recogniser decides Ok/Err; every gathered family/label name must be valid and label names \
         pairwise distinct per sample. Non-trivial: non-ASCII alphanumeric, const/variable clash, `le`, or a malformed/clashing \
         registry prefix or common label. Distinct = hash of decoded choices."
    }
    fn assumptions(&self) -> Vec<&'static str> {
        vec![
            "scalar constructors are always given an empty variable-label list and vector constructors at least one label name (the statement is silent on the other cases)",
            "whether Registry::new_custom / register accept is not judged; only what gather() then returns",
        ]
    }
    fn budget(&self, tier: Tier) -> Budget {
        match tier {
            Tier::Quick => Budget { cases: 1000000, min_len: 4, max_len: 120 },
            Tier::Thorough => Budget { cases: 20000000, min_len: 4, max_len: 160 },
        }
    }

    fn run(&self, src: &mut Src, rep: &mut Report) -> Verdict {
        // a 6-byte case starting with 0xFF is one cell of the exhaustive per-code-point scan (see `post`)
        // an 8-byte case starting with 0xFE x 5 is one configuration of the simultaneous-gather stage (see `post`)
        if src.data().len() == 8 && src.data()[..5] == [0xFE; 5] {
            let cfg = src.data().to_vec();
            rep.class("simultaneous-gather-configuration");
            return match gather_race(&cfg, 3000) {
                Ok(()) => Verdict::Pass,
                Err((sig, d)) => fail(sig, d),
            };
        }
        if src.data().len() == 6 && src.data()[0] == 0xFF {
            let _ = src.byte();
            let u = src.u32raw();
            let variant = src.byte();
            rep.class("code-point-scan-cell");
            return match scan_cell(u, variant) {
                Ok(()) => Verdict::Pass,
                Err((sig, d)) => fail(sig, d),
            };
        }
        let ctor = *src.pick(CTORS);
        let p_bad = if src.chance(128) { 0 } else { 40 };
        let (ns, sub) = if matches!(ctor, Ctor::Pulling | Ctor::Desc) {
            ("", "")
        } else {
            (
                if src.chance(100) { gen_part(src, GOOD_NAME_PARTS, BAD_NAME_PARTS, p_bad) } else { "" },
                if src.chance(60) { gen_part(src, GOOD_NAME_PARTS, BAD_NAME_PARTS, p_bad) } else { "" },
            )
        };
        let name = gen_part(src, GOOD_NAME_PARTS, BAD_NAME_PARTS, p_bad);
        let help = if src.chance(24) { "" } else { *src.pick(&["h", "help text", "é", " "]) };
        let is_vec = matches!(ctor, Ctor::CounterVec | Ctor::IntCounterVec | Ctor::GaugeVec | Ctor::IntGaugeVec | Ctor::HistogramVec);
        let is_hist = matches!(ctor, Ctor::Histogram | Ctor::HistogramVec);
        let has_labels = !matches!(ctor, Ctor::Pulling);
        let lab_pool_good: Vec<&'static str> =
            if src.chance(64) { let mut v = GOOD_LABELS.to_vec(); v.push("le"); v } else { GOOD_LABELS.to_vec() };
        let nconst = if has_labels { src.below(3) } else { 0 };
        let mut consts: Vec<(&'static str, &'static str)> = vec![];
        if nconst == 2 && src.chance(30) {
            // occasionally many constant labels (distinct synthetic names; clashes come from the variable side)
            const MANYC: &[&str] = &["k0", "k1", "k2", "k3", "k4", "k5", "k6", "k7", "k8", "k9", "k10", "k11"];
            for k in MANYC.iter().take(3 + src.below(10)) {
                consts.push((*k, *src.pick(&["v", "", "w"])));
            }
            rep.class("many-constant-labels(3-12)");
        }
        for _ in 0..(if consts.is_empty() { nconst } else { 0 }) {
            let n = gen_part(src, &lab_pool_good, BAD_LABELS, p_bad);
            if !consts.iter().any(|(k, _)| *k == n) {
                consts.push((n, *src.pick(&["v", "", "w", "-1", ":x", "é1", "1x"])));
            }
        }
        let mut nvar = if is_vec {
            1 + src.below(3)
        } else if ctor == Ctor::Desc {
            src.below(3)
        } else {
            0
        };
        if nvar == 3 && src.chance(40) {
            // occasionally many variable labels (the library imposes no limit)
            nvar += src.below(14);
        }
        let mut vars: Vec<&'static str> = vec![];
        if nvar > 3 {
            // many labels: distinct synthetic names, then at most one clash (with a constant label, or within the list)
            const MANY: &[&str] = &["w0", "w1", "w2", "w3", "w4", "w5", "w6", "w7", "w8", "w9", "w10", "w11", "w12", "w13", "w14", "w15", "w16"];
            vars = MANY[..nvar].to_vec();
            match src.below(4) {
                0 | 1 if !consts.is_empty() => {
                    let i = src.below(nvar);
                    vars[i] = consts[src.below(consts.len())].0;
                }
                2 => {
                    let (i, j) = (src.below(nvar), src.below(nvar));
                    vars[i] = vars[j];
                }
                _ => {}
            }
            rep.class("many-variable-labels(4-16)");
        }
        for _ in 0..(if nvar > 3 { 0 } else { nvar }) {
            // bias towards clashes with the constant labels and within the list
            let n = if !consts.is_empty() && src.chance(40) {
                consts[src.below(consts.len())].0
            } else if !vars.is_empty() && src.chance(20) {
                vars[src.below(vars.len())]
            } else {
                gen_part(src, &lab_pool_good, BAD_LABELS, p_bad)
            };
            vars.push(n);
        }

        // ---- the oracle's verdict
        let fqn = fq(ns, sub, name);
        let mut all_labels: Vec<&str> = consts.iter().map(|c| c.0).collect();
        all_labels.extend(vars.iter().copied());
        let dup = {
            let mut s = all_labels.clone();
            s.sort();
            s.windows(2).any(|w| w[0] == w[1])
        };
        let bad_label = all_labels.iter().any(|l| !label_name_ok(l));
        let has_le = all_labels.iter().any(|l| *l == "le");
        let want_ok = metric_name_ok(&fqn) && !help.is_empty() && !bad_label && !dup && !(is_hist && has_le);

        // ---- call the constructor
        let mut opts = Opts::new(name, help).namespace(ns).subsystem(sub);
        for (k, v) in &consts {
            opts = opts.const_label(*k, *v);
        }
        enum Made {
            C(Box<dyn Collector>, Vec<Box<dyn Fn()>>),
            DescOnly,
        }
        let vals: Vec<&str> = vars.iter().map(|_| "val").collect();
        // the other API form for vectors: the variable label names are preset on the options and the constructor gets an empty
        // slice. Whether the presets then count is not judged (the constructor's verdict is only compared with the statement in
        // the ordinary form); what gather() exposes afterwards is.
        let preset = is_vec && src.chance(40);
        let build = |opts: Opts| -> Result<Made, prometheus::Error> {
            let (opts, vars): (Opts, Vec<&'static str>) =
                if preset { (opts.variable_labels(vars.iter().map(|s| s.to_string()).collect()), vec![]) } else { (opts, vars.clone()) };
            Ok(match ctor {
                Ctor::Counter => Made::C(Box::new(Counter::with_opts(opts)?), vec![]),
                Ctor::IntCounter => Made::C(Box::new(IntCounter::with_opts(opts)?), vec![]),
                Ctor::Gauge => Made::C(Box::new(Gauge::with_opts(opts)?), vec![]),
                Ctor::IntGauge => Made::C(Box::new(IntGauge::with_opts(opts)?), vec![]),
                Ctor::Histogram => Made::C(Box::new(Histogram::with_opts(HistogramOpts::from(opts))?), vec![]),
                Ctor::CounterVec => {
                    let v = CounterVec::new(opts, &vars)?;
                    let v2 = v.clone();
                    let vals = vals.clone();
                    Made::C(Box::new(v), vec![Box::new(move || { let _ = v2.get_metric_with_label_values(&vals).map(|c| c.inc());
                        let _ = v2.get_metric_with_label_values(&[] as &[&str]).map(|c| c.inc()); })])
                }
                Ctor::IntCounterVec => {
                    let v = IntCounterVec::new(opts, &vars)?;
                    let v2 = v.clone();
                    let vals = vals.clone();
                    Made::C(Box::new(v), vec![Box::new(move || { let _ = v2.get_metric_with_label_values(&vals).map(|c| c.inc());
                        let _ = v2.get_metric_with_label_values(&[] as &[&str]).map(|c| c.inc()); })])
                }
                Ctor::GaugeVec => {
                    let v = GaugeVec::new(opts, &vars)?;
                    let v2 = v.clone();
                    let vals = vals.clone();
                    Made::C(Box::new(v), vec![Box::new(move || { let _ = v2.get_metric_with_label_values(&vals).map(|c| c.inc());
                        let _ = v2.get_metric_with_label_values(&[] as &[&str]).map(|c| c.inc()); })])
                }
                Ctor::IntGaugeVec => {
                    let v = IntGaugeVec::new(opts, &vars)?;
                    let v2 = v.clone();
                    let vals = vals.clone();
                    Made::C(Box::new(v), vec![Box::new(move || { let _ = v2.get_metric_with_label_values(&vals).map(|c| c.inc());
                        let _ = v2.get_metric_with_label_values(&[] as &[&str]).map(|c| c.inc()); })])
                }
                Ctor::HistogramVec => {
                    let v = HistogramVec::new(HistogramOpts::from(opts), &vars)?;
                    let v2 = v.clone();
                    let vals = vals.clone();
                    Made::C(Box::new(v), vec![Box::new(move || { let _ = v2.get_metric_with_label_values(&vals).map(|c| c.observe(1.0));
                        let _ = v2.get_metric_with_label_values(&[] as &[&str]).map(|c| c.observe(1.0)); })])
                }
                Ctor::Pulling => Made::C(Box::new(PullingGauge::new(fqn.clone(), help, Box::new(|| 1.0))?), vec![]),
                Ctor::Desc => {
                    let cm: HashMap<String, String> = consts.iter().map(|(k, v)| (k.to_string(), v.to_string())).collect();
                    Desc::new(fqn.clone(), help.to_string(), vars.iter().map(|s| s.to_string()).collect(), cm)?;
                    Made::DescOnly
                }
            })
        };
        let made: Result<Made, String> = build(opts.clone()).map_err(|e| e.to_string());

        let describe = || {
            format!(
                "{:?}(ns={:?} sub={:?} name={:?} help={:?} const={:?} var={:?})",
                ctor, ns, sub, name, help, consts, vars
            )
        };
        let got_ok = made.is_ok();
        if preset {
            rep.class("variable-labels-preset-on-the-options");
        }
        if got_ok != want_ok && !preset {
            let sig = if got_ok {
                if dup {
                    "duplicate-label-name-accepted"
                } else if is_hist && has_le {
                    "le-accepted-on-histogram"
                } else if help.is_empty() {
                    "empty-help-accepted"
                } else if !metric_name_ok(&fqn) {
                    "invalid-metric-name-accepted"
                } else {
                    "invalid-label-name-accepted"
                }
            } else {
                "valid-metric-rejected"
            };
            return fail(
                sig,
                format!("{} returned {} but the statement requires {}", describe(), if got_ok { "Ok".to_string() } else { format!("Err({})", made.err().unwrap()) }, if want_ok { "Ok" } else { "Err" }),
            );
        }

        // ---- right after a call that was accepted, on the same thread: the same metric with one constant label's name/value boundary
        // moved (zone="-1" becomes zone-="1"); everything else is equal, only the label name changed - the verdict follows the new name
        if got_ok && !preset && !matches!(ctor, Ctor::Pulling | Ctor::Desc) {
            if let Some(i) = consts.iter().position(|(_, v)| !v.is_empty()) {
                let (k, v) = consts[i];
                let c0 = v.chars().next().unwrap();
                let k2 = format!("{}{}", k, c0);
                let v2 = &v[c0.len_utf8()..];
                let mut names2: Vec<String> = consts.iter().enumerate().map(|(j, c)| if j == i { k2.clone() } else { c.0.to_string() }).collect();
                names2.extend(vars.iter().map(|s| s.to_string()));
                let dup2 = {
                    let mut s = names2.clone();
                    s.sort();
                    s.windows(2).any(|w| w[0] == w[1])
                };
                let want2 = !names2.iter().any(|l| !label_name_ok(l)) && !dup2 && !(is_hist && names2.iter().any(|l| l == "le"));
                let mut opts2 = Opts::new(name, help).namespace(ns).subsystem(sub);
                for (j, (kk, vv)) in consts.iter().enumerate() {
                    opts2 = if j == i { opts2.const_label(k2.clone(), v2) } else { opts2.const_label(*kk, *vv) };
                }
                let got2 = build(opts2).is_ok();
                if got2 != want2 {
                    return fail(
                        if got2 { "invalid-label-name-accepted" } else { "valid-metric-rejected" },
                        format!("right after {} was accepted, the same call with the constant label {:?}={:?} written as {:?}={:?} returned {} but the statement requires {}", describe(), k, v, k2, v2, if got2 { "Ok" } else { "Err" }, if want2 { "Ok" } else { "Err" }),
                    );
                }
                rep.class("follow-up-call-with-a-shifted-name/value-boundary");
            }
        }

        let nonascii = |s: &str| s.chars().any(|c| !c.is_ascii() && c.is_alphanumeric());
        let mut nontrivial = nonascii(ns) || nonascii(sub) || nonascii(name) || all_labels.iter().any(|l| nonascii(l)) || dup || has_le;
        rep.class(if got_ok { "outcome:ok" } else { "outcome:err" });
        if dup {
            rep.class("const-variable-or-repeated-label");
        }
        if has_le {
            rep.class("label-le");
        }

        // ---- the "as a result" clause
        let mut reg_desc = String::new();
        if let Ok(Made::C(coll, makers)) = made {
            // registry configuration
            let avoid_known = !src.chance(40);
            if avoid_known {
                rep.excluded_known = true;
            }
            let prefix: Option<String> = match src.below(4) {
                0 | 1 => None,
                _ => Some(gen_part(src, GOOD_NAME_PARTS, BAD_NAME_PARTS, 50).to_string()),
            };
            let ncl = src.below(4);
            let mut common: HashMap<String, String> = HashMap::new();
            for _ in 0..ncl {
                let n = if avoid_known {
                    gen_part(src, REG_LABELS, BAD_LABELS, 40)
                } else {
                    // may clash with the metric's own labels
                    let mut pool = GOOD_LABELS.to_vec();
                    pool.extend(all_labels.iter().copied().filter(|l| label_name_ok(l)));
                    let i = src.below(pool.len());
                    pool[pool.len() - 1 - i]
                };
                common.insert(n.to_string(), "cv".to_string());
            }
            let reg_bad = prefix.as_deref().map_or(false, |p| !metric_name_ok(p)) || common.keys().any(|k| !label_name_ok(k));
            let clash = common.keys().any(|k| all_labels.iter().any(|l| l == k));
            if reg_bad || clash {
                nontrivial = true;
            }
            if reg_bad {
                rep.class("registry-malformed-prefix-or-label");
            }
            if clash {
                rep.class("registry-label-clashes-with-metric-label");
            }
            reg_desc = format!(" registry(prefix={:?} labels={:?})", prefix, common.keys().collect::<Vec<_>>());
            let has_common = !common.is_empty() || src.chance(128);
            if let Ok(reg) = Registry::new_custom(prefix.clone(), if has_common { Some(common.clone()) } else { None }) {
                rep.class("registry-accepted");
                for m in &makers {
                    m();
                }
                if reg.register(coll).is_ok() {
                    // a second collector under the same fully-qualified name (same help and label names, another
                    // constant-label value): its family is merged with the first one's during gather()
                    if !consts.is_empty() && src.chance(128) {
                        let mut o2 = Opts::new(name, help).namespace(ns).subsystem(sub);
                        for (i, (k, v)) in consts.iter().enumerate() {
                            o2 = o2.const_label(*k, if i == 0 { format!("{}-sibling", v) } else { v.to_string() });
                        }
                        if let Ok(Made::C(c2, makers2)) = build(o2) {
                            for m in &makers2 {
                                m();
                            }
                            if reg.register(c2).is_ok() {
                                rep.class("sibling-collector-under-the-same-name");
                                reg_desc.push_str(" +sibling collector (first constant label value + \"-sibling\")");
                            }
                        }
                    }
                    let fams = reg.gather();
                    ensure!(!fams.is_empty(), "gather-empty", "{}{} registered but gather() is empty", describe(), reg_desc);
                    for f in &fams {
                        ensure!(
                            metric_name_ok(f.name()),
                            "invalid-family-name-exposed",
                            "{}{}: gather() exposes family name {:?}",
                            describe(),
                            reg_desc,
                            f.name()
                        );
                        for m in f.get_metric() {
                            let names: Vec<&str> = m.get_label().iter().map(|l| l.name()).collect();
                            for n in &names {
                                ensure!(
                                    label_name_ok(n),
                                    "invalid-label-name-exposed",
                                    "{}{}: gather() exposes label name {:?} in {:?}",
                                    describe(),
                                    reg_desc,
                                    n,
                                    names
                                );
                            }
                            // the bucket label of a histogram sample is `le`: an own label of that name would appear twice
                            // on every exposed bucket line
                            if f.get_field_type() == prometheus::proto::MetricType::HISTOGRAM && names.iter().any(|n| *n == "le") {
                                // from the registry's common labels: the known finding (common labels are never compared with the
                                // label names the metric itself exposes - for a histogram these include `le`)
                                let sig = if common.contains_key("le") { "registry-common-label-clash" } else { "le-exposed-on-histogram-sample" };
                                return fail(sig, format!("{}{}: gather() exposes a histogram sample that carries the label `le` itself: {:?}", describe(), reg_desc, names));
                            }
                            let mut sorted = names.clone();
                            sorted.sort();
                            if let Some(w) = sorted.windows(2).find(|w| w[0] == w[1]) {
                                let d = w[0];
                                let sig = if common.contains_key(d) && all_labels.iter().any(|l| *l == d) {
                                    "registry-common-label-clash"
                                } else {
                                    "duplicate-label-name-exposed"
                                };
                                return fail(sig, format!("{}{}: sample has label {:?} twice: {:?}", describe(), reg_desc, d, names));
                            }
                        }
                    }
                } else {
                    rep.class("registry-refused-metric");
                }
            } else {
                rep.class("registry-rejected");
            }
        }
        rep.nontrivial = nontrivial;
        if rep.want_sample {
            rep.sample = Some(format!("{}{} -> {}", describe(), reg_desc, if got_ok { "Ok" } else { "Err" }));
        }
        Verdict::Pass
    }
}
