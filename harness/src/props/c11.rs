//! C11 — gauge operations are atomic (scheduler + linearizability).

use prometheus::{Gauge, IntGauge};

use crate::engine::{fail, Budget, Property, Report, Tier, Verdict};
use crate::sched::{run, ExecVerdict, OpFn};
use crate::schedsrc::make_chooser;
use crate::src::Src;
use crate::wgl::{linearize, HOp, Model};

pub struct C11;

#[derive(Clone, Copy, Debug, PartialEq)]
pub enum GOp {
    Set(f64),
    Inc,
    Dec,
    Add(f64),
    Sub(f64),
    Get,
}

#[derive(Clone, PartialEq, Eq, Hash)]
struct GModel(u64); // f64 bits (int gauges use exactly representable values)

impl Model for GModel {
    type Op = GOp;
    type Res = Option<u64>;
    fn apply(&mut self, op: &GOp) -> Option<u64> {
        let v = f64::from_bits(self.0);
        let n = match op {
            GOp::Set(x) => *x,
            GOp::Inc => v + 1.0,
            GOp::Dec => v - 1.0,
            GOp::Add(x) => v + *x,
            GOp::Sub(x) => v - *x,
            GOp::Get => return Some((v + 0.0).to_bits()),
        };
        self.0 = (n + 0.0).to_bits();
        None
    }
}

#[derive(Clone)]
enum G {
    F(Gauge),
    I(IntGauge),
}

impl G {
    fn exec(&self, op: GOp) -> Option<u64> {
        match (self, op) {
            (G::F(g), GOp::Set(x)) => g.set(x),
            (G::F(g), GOp::Inc) => g.inc(),
            (G::F(g), GOp::Dec) => g.dec(),
            (G::F(g), GOp::Add(x)) => g.add(x),
            (G::F(g), GOp::Sub(x)) => g.sub(x),
            (G::F(g), GOp::Get) => return Some((g.get() + 0.0).to_bits()),
            (G::I(g), GOp::Set(x)) => g.set(x as i64),
            (G::I(g), GOp::Inc) => g.inc(),
            (G::I(g), GOp::Dec) => g.dec(),
            (G::I(g), GOp::Add(x)) => g.add(x as i64),
            (G::I(g), GOp::Sub(x)) => g.sub(x as i64),
            (G::I(g), GOp::Get) => return Some((g.get() as f64 + 0.0).to_bits()),
        }
        None
    }
}

impl Property for C11 {
    fn id(&self) -> &'static str {
        "C11"
    }
    fn rule(&self) -> &'static str {
        "case = one shared Gauge or IntGauge, 2-3 threads x 1-5 operations from set/inc/dec/add/sub/get with small integer or dyadic \
         arguments, and a schedule (random walk, PCT with 1-3 priority change points, or a window that pauses one thread before its \
         k-th atomic step while another completes whole operations) with up to 3 injected spurious compare-exchange failures; the \
         real library code runs one atomic step at a time in that order. Oracle: exhaustive linearizability search against the \
         sequential gauge model; on set-free programs the final value equals the signed sum. Non-trivial: a thread was pre-empted \
         between two of its atomic steps of one add/sub/inc/dec while another thread wrote the gauge. Distinct = decoded choices."
    }
    fn assumptions(&self) -> Vec<&'static str> {
        vec![
            "executions are sequentially consistent interleavings of the hooked atomic operations",
            "values are exactly representable so float rounding never enters the comparison",
        ]
    }
    fn budget(&self, tier: Tier) -> Budget {
        match tier {
            Tier::Quick => Budget { cases: 40000, min_len: 8, max_len: 160 },
            Tier::Thorough => Budget { cases: 2000000, min_len: 8, max_len: 200 },
        }
    }

    fn post(&self, tier: Tier, seed: u64, stats: &mut crate::engine::Stats) -> Result<(), (String, String, Vec<u8>)> {
        crate::exhaust::bounded_enumeration(self, tier, seed, stats)
    }

    fn run(&self, src: &mut Src, rep: &mut Report) -> Verdict {
        let float = src.chance(160);
        let g = if float { G::F(Gauge::new("g", "h").unwrap()) } else { G::I(IntGauge::new("g", "h").unwrap()) };
        let nthreads = 2 + src.below(2);
        let mut prog: Vec<Vec<GOp>> = vec![];
        for _ in 0..nthreads {
            let n = 1 + src.below(5);
            let mut ops = vec![];
            for _ in 0..n {
                let v = if float { src.below(17) as f64 / 4.0 } else { src.below(9) as f64 };
                ops.push(match src.below(8) {
                    0 | 1 => GOp::Add(v),
                    2 => GOp::Sub(v),
                    3 => GOp::Inc,
                    4 => GOp::Dec,
                    5 => GOp::Set(v),
                    _ => GOp::Get,
                });
            }
            prog.push(ops);
        }
        let total: usize = prog.iter().map(|p| p.len()).sum();
        let threads: Vec<Vec<OpFn<Option<u64>>>> = prog
            .iter()
            .map(|ops| {
                ops.iter()
                    .map(|op| {
                        let g = g.clone();
                        let op = *op;
                        Box::new(move || g.exec(op)) as OpFn<Option<u64>>
                    })
                    .collect()
            })
            .collect();
        let mut chooser = make_chooser(src, nthreads, total * 5 + 4, rep);
        let exec = run(threads, chooser.as_mut(), 4000);
        drop(chooser);
        match &exec.verdict {
            ExecVerdict::Completed => {}
            ExecVerdict::StepLimit | ExecVerdict::Halted => return Verdict::Discard("step limit"),
            ExecVerdict::Panic(m) => return fail(format!("panic:{}", m.chars().take(40).collect::<String>()), format!("{} ;; program {:?}", m, prog)),
            ExecVerdict::Stuck { spinners, blocked } => {
                return fail("stuck", format!("no thread can make progress (spinning {:?}, blocked {:?}) ;; program {:?}", spinners, blocked, prog))
            }
        }
        let mut hist: Vec<HOp<GOp, Option<u64>>> = exec
            .ops
            .iter()
            .map(|o| HOp { op: prog[o.thread][o.idx], res: o.result.unwrap(), invoke: o.invoke, response: o.response.unwrap() })
            .collect();
        // the final read by the main thread, after everything
        let fin = g.exec(GOp::Get);
        let last = exec.trace.len() + 1;
        hist.push(HOp { op: GOp::Get, res: fin, invoke: last, response: last + 1 });
        let describe = || {
            let h: Vec<String> = hist
                .iter()
                .enumerate()
                .map(|(i, h)| format!("#{} {:?} -> {:?} [{},{}]", i, h.op, h.res.map(f64::from_bits), h.invoke, h.response))
                .collect();
            format!("{} gauge, program {:?}, history {}", if float { "float" } else { "int" }, prog, h.join("; "))
        };
        if linearize(&GModel(0f64.to_bits()), &hist).is_none() {
            return fail("not-linearizable", describe());
        }
        let set_free = prog.iter().all(|p| p.iter().all(|o| !matches!(o, GOp::Set(_))));
        if set_free {
            let mut sum = 0.0;
            for p in &prog {
                for o in p {
                    match o {
                        GOp::Add(x) => sum += x,
                        GOp::Sub(x) => sum -= x,
                        GOp::Inc => sum += 1.0,
                        GOp::Dec => sum -= 1.0,
                        _ => {}
                    }
                }
            }
            if fin != Some((sum + 0.0).to_bits()) {
                return fail("final-value-not-signed-sum", format!("final {:?} expected {} ;; {}", fin.map(f64::from_bits), sum, describe()));
            }
        }
        let writers = prog.iter().filter(|p| p.iter().any(|o| !matches!(o, GOp::Get))).count();
        rep.nontrivial = exec.preempt_inside_op > 0 && writers >= 2;
        rep.class(if float { "float-gauge" } else { "int-gauge" });
        if exec.spurious_injected > 0 {
            rep.class("spurious-cas-failure-injected");
        }
        if exec.preempt_inside_op > 0 {
            rep.class("preempted-inside-operation");
        }
        rep.count("steps", exec.trace.len() as u64);
        rep.count("context_switches", exec.switches as u64);
        if rep.want_sample {
            rep.sample = Some(format!("{} ;; {} steps, {} switches, {} pre-emptions inside an operation", describe(), exec.trace.len(), exec.switches, exec.preempt_inside_op));
        }
        Verdict::Pass
    }
}
