//! C11 — gauge operations are atomic (scheduler + linearizability).

use prometheus::core::Collector;
use prometheus::{Gauge, GaugeVec, IntGauge, IntGaugeVec, Opts};

use crate::engine::{fail, Budget, Property, Report, Tier, Verdict};
use crate::sched::{run, ExecVerdict, OpFn};
use crate::schedsrc::make_chooser;
use crate::src::Src;
use crate::wgl::{linearize, HOp, Model};

pub struct C11;

#[derive(Clone, Copy, Debug, PartialEq)]
pub enum GOp {
    Set(f64),
    Inc,
    Dec,
    Add(f64),
    Sub(f64),
    Get,
    /// read through Collector::collect of the gauge (or of the vector it is a child of)
    Collect,
}

/// Float flavour: f64 bits, IEEE arithmetic in the order of the linearization. Integer flavour: i64 bits,
/// two's-complement wrapping arithmetic (what `fetch_add` / `fetch_sub` do); arguments are the generated f64
/// converted with `as i64`, exactly as the executor converts them.
#[derive(Clone, PartialEq, Eq, Hash)]
struct GModel(u64, bool);

fn fbits(v: f64) -> u64 {
    if v.is_nan() {
        f64::NAN.to_bits()
    } else {
        (v + 0.0).to_bits()
    }
}

impl Model for GModel {
    type Op = GOp;
    type Res = Option<u64>;
    fn apply(&mut self, op: &GOp) -> Option<u64> {
        if self.1 {
            let v = f64::from_bits(self.0);
            let n = match op {
                GOp::Set(x) => *x,
                GOp::Inc => v + 1.0,
                GOp::Dec => v - 1.0,
                GOp::Add(x) => v + *x,
                GOp::Sub(x) => v - *x,
                GOp::Get | GOp::Collect => return Some(fbits(v)),
            };
            self.0 = fbits(n);
        } else {
            let v = self.0 as i64;
            let n = match op {
                GOp::Set(x) => *x as i64,
                GOp::Inc => v.wrapping_add(1),
                GOp::Dec => v.wrapping_sub(1),
                GOp::Add(x) => v.wrapping_add(*x as i64),
                GOp::Sub(x) => v.wrapping_sub(*x as i64),
                GOp::Get => return Some(v as u64),
                // the exposition carries an integer gauge as f64
                GOp::Collect => return Some(fbits(v as f64)),
            };
            self.0 = n as u64;
        }
        None
    }
}

#[derive(Clone)]
enum G {
    F(Gauge),
    I(IntGauge),
}

#[derive(Clone)]
struct Sys {
    g: G,
    /// what collect is called on when it is not the handle itself (the vector, or a second handle to the gauge)
    coll: Option<std::sync::Arc<dyn Collector>>,
}

impl Sys {
    fn exec(&self, op: GOp) -> Option<u64> {
        if op == GOp::Collect {
            let fams = match (&self.coll, &self.g) {
                (Some(c), _) => c.collect(),
                (None, G::F(g)) => g.collect(),
                (None, G::I(g)) => g.collect(),
            };
            let m = &fams[0].get_metric()[0];
            return Some(fbits(m.get_gauge().value()));
        }
        self.g.exec(op)
    }
}

impl G {
    fn exec(&self, op: GOp) -> Option<u64> {
        match (self, op) {
            (_, GOp::Collect) => unreachable!(),
            (G::F(g), GOp::Set(x)) => g.set(x),
            (G::F(g), GOp::Inc) => g.inc(),
            (G::F(g), GOp::Dec) => g.dec(),
            (G::F(g), GOp::Add(x)) => g.add(x),
            (G::F(g), GOp::Sub(x)) => g.sub(x),
            (G::F(g), GOp::Get) => return Some(fbits(g.get())),
            (G::I(g), GOp::Set(x)) => g.set(x as i64),
            (G::I(g), GOp::Inc) => g.inc(),
            (G::I(g), GOp::Dec) => g.dec(),
            (G::I(g), GOp::Add(x)) => g.add(x as i64),
            (G::I(g), GOp::Sub(x)) => g.sub(x as i64),
            (G::I(g), GOp::Get) => return Some(g.get() as u64),
        }
        None
    }
}

impl Property for C11 {
    fn id(&self) -> &'static str {
        "C11"
    }
    fn rule(&self) -> &'static str {
        "case = one shared Gauge or IntGauge (standalone - one handle shared by reference, or two handles - or a GaugeVec/IntGaugeVec child), 2-3 threads x 1-5 operations from \
         set/inc/dec/add/sub/get/Collector::collect with small integer or dyadic arguments (25% of programs: also negative, 2^40, \
         1e300, f64::MAX, +Inf, integers up to 2^59 - IEEE resp. exact integer arithmetic in the model; 7% of programs: the gauge starts at \
         -0.0 and arguments are +-0.0 / 1 / 0.5; 10% of float programs: the gauge starts at NaN, +Inf or -Inf and arguments are NaN / +-Inf / 5 / 1 / 0.5, all NaNs being one value; 8% of float programs: amounts of 5e-324 / 1e-310 / 2^-1022 and their negatives; 8%: values one ulp apart (1.5 and its neighbours, 0.3 and 0.1 + 0.2); 12% of integer programs: the gauge starts at -7 / -1000 / -2^62, sets write negative values, arguments include i64::MIN and -2^62, and programs in which some order of the calls could overflow are discarded), and a schedule (random walk, PCT with 1-3 priority change points, or a window that pauses one thread before its \
         k-th atomic step while another completes whole operations) with up to 3 injected spurious compare-exchange failures; the \
         real library code runs one atomic step at a time in that order. Oracle: exhaustive linearizability search against the \
         sequential gauge model; on set-free programs the final value equals the signed sum. Non-trivial: a thread was pre-empted \
         between two of its atomic steps of one add/sub/inc/dec while another thread wrote the gauge. Distinct = decoded choices."
    }
    fn assumptions(&self) -> Vec<&'static str> {
        vec![
            "executions are sequentially consistent interleavings of the hooked atomic operations",
            "values are exactly representable so float rounding never enters the comparison",
        ]
    }
    fn budget(&self, tier: Tier) -> Budget {
        match tier {
            Tier::Quick => Budget { cases: 40000, min_len: 8, max_len: 160 },
            Tier::Thorough => Budget { cases: 1200000, min_len: 8, max_len: 200 },
        }
    }

    fn post(&self, tier: Tier, seed: u64, stats: &mut crate::engine::Stats) -> Result<(), (String, String, Vec<u8>)> {
        crate::exhaust::bounded_enumeration(self, tier, seed, stats)?;
        crate::freerun::free_runs(self, tier, seed, stats)
    }

    fn run(&self, src: &mut Src, rep: &mut Report) -> Verdict {
        let float = src.chance(160);
        let via_vec = src.chance(64);
        // half of the standalone programs use ONE handle, shared by reference between the threads (no clone of it exists
        // anywhere); the others collect through a second handle
        let single_handle = !via_vec && src.chance(128);
        let sys = match (float, via_vec) {
            (true, false) => {
                let g = Gauge::new("g", "h").unwrap();
                if single_handle {
                    Sys { g: G::F(g), coll: None }
                } else {
                    Sys { g: G::F(g.clone()), coll: Some(std::sync::Arc::new(g)) }
                }
            }
            (false, false) => {
                let g = IntGauge::new("g", "h").unwrap();
                if single_handle {
                    Sys { g: G::I(g), coll: None }
                } else {
                    Sys { g: G::I(g.clone()), coll: Some(std::sync::Arc::new(g)) }
                }
            }
            (true, true) => {
                let v = GaugeVec::new(Opts::new("g", "h"), &["l"]).unwrap();
                Sys { g: G::F(v.with_label_values(&["x"])), coll: Some(std::sync::Arc::new(v)) }
            }
            (false, true) => {
                let v = IntGaugeVec::new(Opts::new("g", "h"), &["l"]).unwrap();
                Sys { g: G::I(v.with_label_values(&["x"])), coll: Some(std::sync::Arc::new(v)) }
            }
        };
        // 25% of programs draw arguments from a wide pool (negative, large, extreme): the signed-sum shortcut is skipped
        // there (rounding / wrapping), the linearizability search applies the same arithmetic as the library
        let wide = src.chance(64);
        // 12% of float programs play with the sign of zero: the gauge starts at -0.0 (set before the threads start) and
        // arguments come from {-0.0, 0.0, 1.0, 0.5}; -0.0 and 0.0 are the same value for the oracle
        let zero_sign = float && !wide && src.chance(30);
        if zero_sign {
            sys.g.exec(GOp::Set(-0.0));
        }
        // 10% of float programs play with the non-finite values: the gauge starts at NaN, +Inf or -Inf (a NaN gauge is how "unknown" is
        // exported) and arguments come from {NaN, +Inf, -Inf, 1, 5, 0.5}; all NaNs are one value for the oracle, and IEEE arithmetic
        // (Inf - Inf = NaN, NaN + x = NaN) is the sequential behaviour: a set(5) that completes is not undone by somebody else's add
        let nonfinite = float && !zero_sign && src.chance(26);
        // 8% of float programs use amounts below the smallest normal number (5e-324 = one ulp of zero, 1e-310, 2^-1022 and their
        // negatives): the linearizability search applies the same IEEE arithmetic in every candidate order (the signed-sum shortcut is skipped: inc/dec
        // mix 1.0 in, which absorbs the tiny amounts in an order-dependent way)
        let tiny = float && !wide && !zero_sign && !nonfinite && src.chance(20);
        // 8% of float programs use values one unit in the last place apart (1.5 and its two neighbours, 0.3 and 0.1 + 0.2): "the same
        // value" for an approximate comparison, different values for the gauge
        let adjacent = float && !wide && !zero_sign && !nonfinite && !tiny && src.chance(20);
        let mut start = 0f64;
        if nonfinite {
            start = [f64::NAN, f64::INFINITY, f64::NEG_INFINITY][src.below(3)];
            sys.g.exec(GOp::Set(start));
        }
        // 12% of integer programs work at the edge of the range: the gauge starts at a negative value, sets write negative values, and
        // arguments include i64::MIN - sub(i64::MIN) adds 2^63, which a negative gauge takes without overflow. Programs in which some
        // order of the calls could leave the i64 range are discarded (see below): what happens on overflow is not part of the statement
        let extreme = !float && !wide && src.chance(30);
        let mut istart = 0i64;
        if extreme {
            istart = [-1000i64, -7, -(1i64 << 62)][src.below(3)];
            sys.g.exec(GOp::Set(istart as f64));
        }
        let nthreads = 2 + src.below(2);
        let mut prog: Vec<Vec<GOp>> = vec![];
        let mut edge_used = false;
        for _ in 0..nthreads {
            let n = 1 + src.below(5);
            let mut ops = vec![];
            for _ in 0..n {
                let mut v = if float { src.below(17) as f64 / 4.0 } else { src.below(9) as f64 };
                if wide {
                    const FW: &[f64] = &[-1.5, -0.25, 1099511627776.0, -1099511627775.75, 1e300, -1e300, 9007199254740993.0, 0.1, f64::MAX, -0.0, f64::INFINITY];
                    // integer arguments stay below 2^59 in magnitude: 15 operations cannot overflow an i64, and what happens on overflow is
                    // not part of the statement
                    const IW: &[f64] = &[-1.0, -7.0, 1099511627776.0, -1099511627777.0, 576460752303423488.0, -576460752303423488.0, 288230376151711745.0];
                    let pool = if float { FW } else { IW };
                    let k = src.below(pool.len() + 4);
                    if k < pool.len() {
                        v = pool[pool.len() - 1 - k];
                    }
                }
                if zero_sign {
                    v = [1.0, 0.0, -0.0, 0.5][src.below(4)];
                }
                if nonfinite {
                    v = [5.0, 1.0, 0.5, f64::INFINITY, f64::NEG_INFINITY, f64::NAN][src.below(6)];
                }
                if tiny {
                    v = [f64::from_bits(1), -f64::from_bits(1), 1e-310, f64::MIN_POSITIVE, -1e-310, f64::from_bits(3)][src.below(6)];
                }
                if adjacent {
                    v = [1.5, f64::from_bits(1.5f64.to_bits() + 1), f64::from_bits(1.5f64.to_bits() - 1), 0.3, 0.1 + 0.2, 1.0][src.below(6)];
                }
                if extreme {
                    v = [1.0, -3.0, 7.0, -500.0, i64::MIN as f64, -4611686018427387904.0][src.below(6)];
                }
                // (range-edge programs: the one call that adds 2^63 is drawn directly, once per program at most)
                if extreme && !edge_used && src.chance(40) {
                    edge_used = true;
                    ops.push(GOp::Sub(i64::MIN as f64));
                    continue;
                }
                ops.push(match src.below(9) {
                    0 | 1 => GOp::Add(v),
                    2 => GOp::Sub(v),
                    3 => GOp::Inc,
                    4 => GOp::Dec,
                    5 => GOp::Set(v),
                    8 => GOp::Collect,
                    _ => GOp::Get,
                });
            }
            prog.push(ops);
        }
        if extreme {
            // sets write negative values only
            for p in prog.iter_mut() {
                for o in p.iter_mut() {
                    if let GOp::Set(x) = o {
                        *x = -x.abs() - 1.0;
                    }
                }
            }
        }
        if !float {
            // every value any order of the calls can produce: a base (the start or a set value) plus a subset of the deltas
            let mut bases: Vec<i128> = vec![istart as i128];
            let (mut pos, mut neg) = (0i128, 0i128);
            for o in prog.iter().flatten() {
                let d: i128 = match o {
                    GOp::Set(x) => {
                        bases.push(*x as i64 as i128);
                        0
                    }
                    GOp::Inc => 1,
                    GOp::Dec => -1,
                    GOp::Add(x) => *x as i64 as i128,
                    GOp::Sub(x) => -(*x as i64 as i128),
                    _ => 0,
                };
                if d > 0 {
                    pos += d;
                } else {
                    neg += d;
                }
            }
            let lo = bases.iter().min().unwrap() + neg;
            let hi = bases.iter().max().unwrap() + pos;
            if lo < i64::MIN as i128 || hi > i64::MAX as i128 {
                return Verdict::Discard("some order of the calls would overflow the integer gauge");
            }
        }
        let total: usize = prog.iter().map(|p| p.len()).sum();
        let threads: Vec<Vec<OpFn<Option<u64>>>> = prog
            .iter()
            .map(|ops| {
                ops.iter()
                    .map(|op| {
                        let g = &sys;
                        let op = *op;
                        Box::new(move || g.exec(op)) as OpFn<Option<u64>>
                    })
                    .collect()
            })
            .collect();
        let mut chooser = make_chooser(src, nthreads, total * 5 + 4, rep);
        let exec = run(threads, chooser.as_mut(), 12_000);
        drop(chooser);
        match &exec.verdict {
            ExecVerdict::Completed => {}
            ExecVerdict::StepLimit | ExecVerdict::Halted => return Verdict::Discard("step limit"),
            ExecVerdict::Panic(m) => return fail(format!("panic:{}", m.chars().take(40).collect::<String>()), format!("{} ;; program {:?}", m, prog)),
            ExecVerdict::Stuck { spinners, blocked } => {
                return fail("stuck", format!("no thread can make progress (spinning {:?}, blocked {:?}) ;; program {:?}", spinners, blocked, prog))
            }
        }
        let mut hist: Vec<HOp<GOp, Option<u64>>> = exec
            .ops
            .iter()
            .map(|o| HOp { op: prog[o.thread][o.idx], res: o.result.unwrap(), invoke: o.invoke, response: o.response.unwrap() })
            .collect();
        // the final read by the main thread, after everything
        let fin = sys.exec(GOp::Get);
        let last = exec.trace.len() + 1;
        hist.push(HOp { op: GOp::Get, res: fin, invoke: last, response: last + 1 });
        hist.push(HOp { op: GOp::Collect, res: sys.exec(GOp::Collect), invoke: last + 2, response: last + 3 });
        let describe = || {
            let h: Vec<String> = hist
                .iter()
                .enumerate()
                .map(|(i, h)| format!("#{} {:?} -> {:?} [{},{}]", i, h.op, h.res.map(|b| if float || h.op == GOp::Collect { format!("{:?}", f64::from_bits(b)) } else { format!("{}", b as i64) }), h.invoke, h.response))
                .collect();
            format!("{} gauge{}, program {:?}, history {}", if float { "float" } else { "int" }, if via_vec { " (vector child)" } else { "" }, prog, h.join("; "))
        };
        if linearize(&GModel(if float { fbits(start) } else { istart as u64 }, float), &hist).is_none() {
            return fail("not-linearizable", describe());
        }
        let set_free = prog.iter().all(|p| p.iter().all(|o| !matches!(o, GOp::Set(_))));
        if set_free && !wide && !nonfinite && !extreme && !tiny && !adjacent {
            let mut sum = 0.0;
            for p in &prog {
                for o in p {
                    match o {
                        GOp::Add(x) => sum += x,
                        GOp::Sub(x) => sum -= x,
                        GOp::Inc => sum += 1.0,
                        GOp::Dec => sum -= 1.0,
                        _ => {}
                    }
                }
            }
            let want = if float { fbits(sum) } else { sum as i64 as u64 };
            if fin != Some(want) {
                return fail("final-value-not-signed-sum", format!("final {:?} expected {} ;; {}", fin, sum, describe()));
            }
        }
        let writers = prog.iter().filter(|p| p.iter().any(|o| !matches!(o, GOp::Get))).count();
        rep.nontrivial = exec.preempt_inside_op > 0 && writers >= 2;
        rep.class(if float { "float-gauge" } else { "int-gauge" });
        if via_vec {
            rep.class("vector-child");
        }
        if single_handle {
            rep.class("single-handle-shared-by-reference");
        }
        if wide {
            rep.class("wide-argument-pool(negative/large/extreme)");
        }
        if zero_sign {
            rep.class("zero-sign-play(starts at -0.0)");
        }
        if nonfinite {
            rep.class("non-finite-play(starts at NaN/+Inf/-Inf)");
        }
        if tiny {
            rep.class("subnormal-amounts");
        }
        if adjacent {
            rep.class("values-one-ulp-apart");
        }
        if extreme {
            rep.class("integer-range-edge(negative gauge, i64::MIN arguments, no order overflows)");
        }
        if exec.spurious_injected > 0 {
            rep.class("spurious-cas-failure-injected");
        }
        if exec.preempt_inside_op > 0 {
            rep.class("preempted-inside-operation");
        }
        rep.count("steps", exec.trace.len() as u64);
        rep.count("context_switches", exec.switches as u64);
        if rep.want_sample {
            rep.sample = Some(format!("{} ;; {} steps, {} switches, {} pre-emptions inside an operation", describe(), exec.trace.len(), exec.switches, exec.preempt_inside_op));
        }
        Verdict::Pass
    }
}
