//! C10 — concurrent use of a metric vector is linearizable (scheduler + sequential histories).

use std::collections::{BTreeMap, HashMap};
use std::sync::{Arc, Mutex};

use prometheus::core::Collector;
use prometheus::{CounterVec, GaugeVec, IntCounterVec, Opts};

use crate::engine::{fail, Budget, Property, Report, Tier, Verdict};
use crate::neutral::{neutral, NValue};
use crate::pools::SeededState;
use crate::sched::{run, ExecVerdict, OpFn};
use crate::schedsrc::make_chooser;
use crate::src::Src;
use crate::wgl::{linearize, HOp, Model};

pub struct C10;

type Tuple = Vec<String>;

#[derive(Clone, Debug, PartialEq)]
pub enum VOp {
    /// get-or-create through the slice (false) or map (true) form - or, `local`, through a fresh local vector (whose
    /// with_label_values asks the shared vector; updates through the handle are flushed at once); binds handle `hid`
    GetOrCreate { t: Tuple, map: bool, local: bool, hid: usize },
    Inc { hid: usize, bit: u32 },
    Get { hid: usize },
    Remove { t: Tuple, map: bool },
    Reset,
    Collect,
    /// concurrent histories: a collection is judged as one atomic read of the key set ...
    CollectKeys { cid: usize },
    /// ... plus one linearizable read per exposed child, anywhere within the collection's interval
    CollectVal { cid: usize, t: Tuple },
    WrongArity,
}

#[derive(Clone, Debug, PartialEq)]
pub enum VRes {
    Unit,
    Ok(bool),
    Val(u64),
    Snapshot(Vec<(Tuple, u64)>),
    Keys(Vec<Tuple>),
    /// model only: the operation cannot take effect here (a map mutation inside an open collection)
    Blocked,
    /// executor only: the untouched background children of a large vector are not shown exactly once with value 0
    BadBackground(String),
}

#[derive(Clone, PartialEq, Eq, Hash, Default)]
struct VModel {
    map: BTreeMap<Tuple, usize>,
    val: Vec<u64>,
    bind: BTreeMap<usize, usize>,
    /// handles that are local vectors: their own `get` shows the pending amount (always 0 here), not the child
    local: std::collections::BTreeSet<usize>,
    cbind: BTreeMap<(usize, Tuple), usize>,
    /// collections whose key set has been read but whose per-child values have not all been read yet:
    /// no operation that changes the map may take effect in between (the library holds the map's read
    /// lock for the whole collection; only updates through handles are concurrent with it)
    open: BTreeMap<usize, usize>,
}

impl Model for VModel {
    type Op = VOp;
    type Res = VRes;
    fn apply(&mut self, op: &VOp) -> VRes {
        match op {
            VOp::GetOrCreate { t, hid, local, .. } => {
                if *local {
                    self.local.insert(*hid);
                }
                let c = match self.map.get(t) {
                    Some(c) => *c,
                    None => {
                        if !self.open.is_empty() {
                            return VRes::Blocked;
                        }
                        self.val.push(0);
                        self.map.insert(t.clone(), self.val.len() - 1);
                        self.val.len() - 1
                    }
                };
                self.bind.insert(*hid, c);
                VRes::Unit
            }
            VOp::Inc { hid, bit } => {
                if let Some(c) = self.bind.get(hid) {
                    self.val[*c] += 1u64 << bit;
                }
                VRes::Unit
            }
            VOp::Get { hid } if self.local.contains(hid) => VRes::Val(0),
            VOp::Get { hid } => VRes::Val(self.bind.get(hid).map_or(u64::MAX, |c| self.val[*c])),
            VOp::Remove { t, .. } => {
                if self.map.contains_key(t) && !self.open.is_empty() {
                    return VRes::Blocked;
                }
                VRes::Ok(self.map.remove(t).is_some())
            }
            VOp::Reset => {
                if !self.map.is_empty() && !self.open.is_empty() {
                    return VRes::Blocked;
                }
                self.map.clear();
                VRes::Unit
            }
            VOp::Collect => VRes::Snapshot(self.map.iter().map(|(t, c)| (t.clone(), self.val[*c])).collect()),
            VOp::CollectKeys { cid } => {
                for (t, c) in &self.map {
                    self.cbind.insert((*cid, t.clone()), *c);
                }
                if !self.map.is_empty() {
                    self.open.insert(*cid, self.map.len());
                }
                VRes::Keys(self.map.keys().cloned().collect())
            }
            VOp::CollectVal { cid, t } => {
                let r = VRes::Val(self.cbind.get(&(*cid, t.clone())).map_or(u64::MAX, |c| self.val[*c]));
                if let Some(n) = self.open.get_mut(cid) {
                    *n -= 1;
                    if *n == 0 {
                        self.open.remove(cid);
                    }
                }
                r
            }
            VOp::WrongArity => VRes::Ok(false),
        }
    }
}

#[derive(Clone)]
enum AnyVec {
    IC(IntCounterVec),
    C(CounterVec),
    G(GaugeVec),
}
#[derive(Clone)]
enum AnyChild {
    IC(prometheus::IntCounter),
    C(prometheus::Counter),
    G(prometheus::Gauge),
    /// a local vector that has been asked for the tuple (it keeps the child it was given)
    LIC(Arc<Mutex<prometheus::local::LocalIntCounterVec>>, Tuple),
    LC(Arc<Mutex<prometheus::local::LocalCounterVec>>, Tuple),
}

#[derive(Clone)]
struct Sys {
    v: AnyVec,
    names: Vec<&'static str>,
    handles: Arc<Mutex<HashMap<usize, AnyChild>>>,
    /// large-vector programs: this many background children exist before the threads start and are never touched;
    /// every collection must show each of them exactly once with value 0 (checked directly, outside the search)
    bulk: usize,
}

const BG: &str = "\u{1}bg";

impl Sys {
    fn get(&self, t: &Tuple, map: bool) -> Result<AnyChild, prometheus::Error> {
        let refs: Vec<&str> = t.iter().map(|s| s.as_str()).collect();
        if map {
            let mut m: HashMap<&str, &str, SeededState> = HashMap::with_hasher(SeededState(7));
            for (n, v) in self.names.iter().zip(&refs) {
                m.insert(n, v);
            }
            Ok(match &self.v {
                AnyVec::IC(v) => AnyChild::IC(v.get_metric_with(&m)?),
                AnyVec::C(v) => AnyChild::C(v.get_metric_with(&m)?),
                AnyVec::G(v) => AnyChild::G(v.get_metric_with(&m)?),
            })
        } else {
            Ok(match &self.v {
                AnyVec::IC(v) => AnyChild::IC(v.get_metric_with_label_values(&refs)?),
                AnyVec::C(v) => AnyChild::C(v.get_metric_with_label_values(&refs)?),
                AnyVec::G(v) => AnyChild::G(v.get_metric_with_label_values(&refs)?),
            })
        }
    }
    fn exec(&self, op: &VOp) -> VRes {
        match op {
            VOp::GetOrCreate { t, local: true, hid, .. } => {
                let refs: Vec<&str> = t.iter().map(|s| s.as_str()).collect();
                let c = match &self.v {
                    AnyVec::IC(v) => {
                        let mut l = v.local();
                        l.with_label_values(&refs);
                        AnyChild::LIC(Arc::new(Mutex::new(l)), t.clone())
                    }
                    AnyVec::C(v) => {
                        let mut l = v.local();
                        l.with_label_values(&refs);
                        AnyChild::LC(Arc::new(Mutex::new(l)), t.clone())
                    }
                    AnyVec::G(_) => unreachable!("gauge vectors have no local form"),
                };
                self.handles.lock().unwrap().insert(*hid, c);
                VRes::Unit
            }
            VOp::GetOrCreate { t, map, hid, .. } => {
                let c = self.get(t, *map).expect("valid request refused");
                self.handles.lock().unwrap().insert(*hid, c);
                VRes::Unit
            }
            VOp::Inc { hid, bit } => {
                let h = self.handles.lock().unwrap().get(hid).cloned();
                match h {
                    Some(AnyChild::IC(c)) => c.inc_by(1u64 << bit),
                    Some(AnyChild::C(c)) => c.inc_by((1u64 << bit) as f64),
                    Some(AnyChild::G(c)) => c.add((1u64 << bit) as f64),
                    Some(AnyChild::LIC(l, t)) => {
                        let refs: Vec<&str> = t.iter().map(|s| s.as_str()).collect();
                        let mut l = l.lock().unwrap();
                        l.with_label_values(&refs).inc_by(1u64 << bit);
                        l.flush();
                    }
                    Some(AnyChild::LC(l, t)) => {
                        let refs: Vec<&str> = t.iter().map(|s| s.as_str()).collect();
                        let mut l = l.lock().unwrap();
                        l.with_label_values(&refs).inc_by((1u64 << bit) as f64);
                        l.flush();
                    }
                    None => {}
                }
                VRes::Unit
            }
            VOp::Get { hid } => {
                let h = self.handles.lock().unwrap().get(hid).cloned();
                VRes::Val(match h {
                    Some(AnyChild::IC(c)) => c.get(),
                    Some(AnyChild::C(c)) => c.get() as u64,
                    Some(AnyChild::G(c)) => c.get() as u64,
                    Some(AnyChild::LIC(l, t)) => {
                        let refs: Vec<&str> = t.iter().map(|s| s.as_str()).collect();
                        l.lock().unwrap().with_label_values(&refs).get()
                    }
                    Some(AnyChild::LC(l, t)) => {
                        let refs: Vec<&str> = t.iter().map(|s| s.as_str()).collect();
                        l.lock().unwrap().with_label_values(&refs).get() as u64
                    }
                    None => u64::MAX,
                })
            }
            VOp::Remove { t, map } => {
                let refs: Vec<&str> = t.iter().map(|s| s.as_str()).collect();
                let r = if *map {
                    let mut m: HashMap<&str, &str, SeededState> = HashMap::with_hasher(SeededState(3));
                    for (n, v) in self.names.iter().zip(&refs) {
                        m.insert(n, v);
                    }
                    match &self.v {
                        AnyVec::IC(v) => v.remove(&m),
                        AnyVec::C(v) => v.remove(&m),
                        AnyVec::G(v) => v.remove(&m),
                    }
                } else {
                    match &self.v {
                        AnyVec::IC(v) => v.remove_label_values(&refs),
                        AnyVec::C(v) => v.remove_label_values(&refs),
                        AnyVec::G(v) => v.remove_label_values(&refs),
                    }
                };
                VRes::Ok(r.is_ok())
            }
            VOp::Reset => {
                match &self.v {
                    AnyVec::IC(v) => v.reset(),
                    AnyVec::C(v) => v.reset(),
                    AnyVec::G(v) => v.reset(),
                }
                VRes::Unit
            }
            VOp::Collect => {
                let fams = match &self.v {
                    AnyVec::IC(v) => v.collect(),
                    AnyVec::C(v) => v.collect(),
                    AnyVec::G(v) => v.collect(),
                };
                let f = neutral(&fams[0]);
                let mut bg_seen: Vec<&str> = vec![];
                for s in &f.samples {
                    if let Some((_, v)) = s.labels.iter().find(|(k, v)| k == self.names[0] && v.starts_with(BG)) {
                        let zero = matches!(s.value, NValue::Counter(x) | NValue::Gauge(x) if x == 0.0);
                        if !zero {
                            return VRes::BadBackground(format!("background child {:?} shows a non-zero value", v));
                        }
                        bg_seen.push(v.as_str());
                    }
                }
                if self.bulk > 0 || !bg_seen.is_empty() {
                    let n = bg_seen.len();
                    bg_seen.sort();
                    bg_seen.dedup();
                    if n != bg_seen.len() {
                        return VRes::BadBackground(format!("{} background children are shown, {} distinct: some child appears twice in one collection", n, bg_seen.len()));
                    }
                    if n != self.bulk {
                        return VRes::BadBackground(format!("{} of the {} background children (present before, during and after the collection) are shown", n, self.bulk));
                    }
                }
                let mut out: Vec<(Tuple, u64)> = f
                    .samples
                    .iter()
                    .filter(|s| !s.labels.iter().any(|(k, v)| k == self.names[0] && v.starts_with(BG)))
                    .map(|s| {
                        let t: Tuple = self.names.iter().map(|n| s.labels.iter().find(|(k, _)| k == n).map(|x| x.1.clone()).unwrap_or_default()).collect();
                        let v = match s.value {
                            NValue::Counter(v) | NValue::Gauge(v) => v as u64,
                            _ => u64::MAX,
                        };
                        (t, v)
                    })
                    .collect();
                out.sort();
                VRes::Snapshot(out)
            }
            VOp::CollectKeys { .. } | VOp::CollectVal { .. } => unreachable!(),
            VOp::WrongArity => {
                let r = match &self.v {
                    AnyVec::IC(v) => v.get_metric_with_label_values(&["a", "b", "c"]).is_ok(),
                    AnyVec::C(v) => v.get_metric_with_label_values(&["a", "b", "c"]).is_ok(),
                    AnyVec::G(v) => v.get_metric_with_label_values(&["a", "b", "c"]).is_ok(),
                };
                VRes::Ok(r)
            }
        }
    }
}

const T1: &[&[&str]] = &[&["x"], &["y"], &["xy"]];
const T2: &[&[&str]] = &[&["x", "y"], &["xy", ""], &["", "xy"]];
// the same shapes around U+00FF (whose scalar value equals the separator byte) and NUL
const T1B: &[&[&str]] = &[&["\u{ff}"], &["\u{ff}\u{ff}"], &["\u{ff}\0"]];
const T2B: &[&[&str]] = &[&["a\u{ff}b", "c"], &["a", "b\u{ff}c"], &["a\u{ff}b\u{ff}c", ""]];

impl Property for C10 {
    fn id(&self) -> &'static str {
        "C10"
    }
    fn rule(&self) -> &'static str {
        "case = one IntCounterVec / CounterVec / GaugeVec with 1-2 label names (two: declared as a,b or as b,a; a sixth of the requests to counter vectors go through a fresh local vector, whose handle flushes every update at once) and 2-3 overlapping (boundary-shifted) tuples (20%: the same shapes around U+00FF and NUL); either \
         2-3 threads x 2-5 operations under a generated schedule (walk / PCT / window), or one thread with up to 40 operations \
         (sequential history). Operations: get-or-create (slice or map form) binding a handle, inc_by(2^i) / get through a handle, \
         remove (slice or map form), reset, collect, a wrong-arity request; 1.5% of the concurrent programs run on a vector that \
         already holds 1000-1299 or 4097-4396 untouched background children (each collection must show every one of them exactly once with value \
         0). Oracle: exhaustive linearizability search against the map \
         model of DESIGN.md appendix C (tuple -> child, child -> value, handle -> child; handles of removed children stay usable; \
         re-created children start from zero; collect shows every tuple once; a concurrent collect is judged as one atomic read of \
         the key set followed by one read per listed child, and no create / remove / reset may take effect between the key read and \
         the last child read - updates through handles may) + final-state check after quiescence; after the generated tier every \
         schedule with at most 2 (thorough: 3) pre-emptions of a sample of small generated programs is enumerated. Non-trivial: two \
         get-or-create operations on one tuple overlap in time, or a remove/reset overlaps a get-or-create of the same tuple; for \
         sequential histories: a child is re-created after removal and a handle to the removed child is used afterwards. \
         Distinct = decoded choices."
    }
    fn assumptions(&self) -> Vec<&'static str> {
        vec!["executions are sequentially consistent interleavings of the hooked atomic / lock operations"]
    }
    fn budget(&self, tier: Tier) -> Budget {
        match tier {
            Tier::Quick => Budget { cases: 30000, min_len: 8, max_len: 260 },
            Tier::Thorough => Budget { cases: 1000000, min_len: 8, max_len: 320 },
        }
    }

    fn post(&self, tier: Tier, seed: u64, stats: &mut crate::engine::Stats) -> Result<(), (String, String, Vec<u8>)> {
        crate::exhaust::bounded_enumeration(self, tier, seed, stats)?;
        crate::freerun::free_runs(self, tier, seed, stats)
    }

    fn run(&self, src: &mut Src, rep: &mut Report) -> Verdict {
        let two = src.chance(100);
        // (declared in sorted order or not: label values are positional in the declared order, whatever the names are)
        let names: Vec<&'static str> = if two { if src.chance(128) { vec!["b", "a"] } else { vec!["a", "b"] } } else { vec!["a"] };
        let odd = src.chance(50);
        let mut pool: Vec<Tuple> = (match (two, odd) {
            (true, false) => T2,
            (false, false) => T1,
            (true, true) => T2B,
            (false, true) => T1B,
        })
        .iter()
        .map(|t| t.iter().map(|s| s.to_string()).collect())
        .collect();
        // a tenth of the single-label programs use two tuples whose keys agree in the low 16 bits (and a third, unrelated one)
        if !two && src.chance(26) {
            let pairs = crate::pools::fnv_low_bits_pairs();
            let (a, b) = &pairs[src.below(pairs.len())];
            pool = vec![vec![a.clone()], vec![b.clone()], vec!["x".to_string()]];
            rep.class("tuples-with-keys-equal-in-the-low-16-bits");
        }
        let ntuples = 2 + src.below(2);
        let pool = &pool[..ntuples.min(pool.len())];
        let kind = src.below(8);
        let v = match kind {
            0..=4 => AnyVec::IC(IntCounterVec::new(Opts::new("v", "h"), &names).unwrap()),
            5 => AnyVec::C(CounterVec::new(Opts::new("v", "h"), &names).unwrap()),
            _ => AnyVec::G(GaugeVec::new(Opts::new("v", "h"), &names).unwrap()),
        };
        let sequential = src.chance(64);
        // 1.5% of concurrent programs run on a large vector (the library imposes no limit on the number of children)
        // (... and on vectors that are within a few children of 224 or 448: a std HashMap of that many entries is exactly full, the next
        // insertion re-allocates the table)
        let bulk = if !sequential && src.chance(4) {
            [1000, 4097][src.below(2)] + src.below(300)
        } else if !sequential && src.chance(36) {
            [222, 446][src.below(2)] + src.below(3)
        } else {
            0
        };
        let sys = Sys { v, names: names.clone(), handles: Arc::new(Mutex::new(HashMap::new())), bulk };
        for k in 0..bulk {
            let mut t: Tuple = vec![format!("{}{}", BG, k)];
            t.resize(names.len(), String::new());
            sys.get(&t, false).expect("background child");
        }
        if bulk > 0 {
            rep.class(if bulk > 4000 {
                "large-vector(4097+ untouched background children)"
            } else if bulk >= 1000 {
                "large-vector(1000+ untouched background children)"
            } else {
                "vector-at-a-table-growth-boundary(222-224 / 446-448 background children)"
            });
        }
        let nthreads = if sequential { 1 } else { 2 + src.below(2) };
        let mut prog: Vec<Vec<VOp>> = vec![];
        let mut next_hid = 0usize;
        let mut next_bit = 0u32;
        for _ in 0..nthreads {
            let n = if sequential { 4 + src.below(37) } else { 2 + src.below(4) };
            let mut ops: Vec<VOp> = vec![];
            let mut my_handles: Vec<usize> = vec![];
            for _ in 0..n {
                let k = src.below(16);
                let t = pool[src.below(pool.len())].clone();
                let op = match k {
                    0..=4 => {
                        next_hid += 1;
                        my_handles.push(next_hid - 1);
                        // a sixth of the requests to counter vectors go through a fresh local vector
                        let local = kind <= 5 && src.chance(40);
                        VOp::GetOrCreate { t, map: src.chance(80), local, hid: next_hid - 1 }
                    }
                    5..=8 if !my_handles.is_empty() && next_bit < 50 => {
                        next_bit += 1;
                        VOp::Inc { hid: my_handles[my_handles.len() - 1 - src.below(my_handles.len())], bit: next_bit - 1 }
                    }
                    9 | 10 if !my_handles.is_empty() => VOp::Get { hid: my_handles[my_handles.len() - 1 - src.below(my_handles.len())] },
                    11 | 12 => VOp::Remove { t, map: src.chance(80) },
                    13 if bulk == 0 => VOp::Reset,
                    13 => VOp::Remove { t, map: false },
                    14 => VOp::WrongArity,
                    _ => VOp::Collect,
                };
                ops.push(op);
            }
            prog.push(ops);
        }
        let total: usize = prog.iter().map(|p| p.len()).sum();
        let threads: Vec<Vec<OpFn<VRes>>> = prog
            .iter()
            .map(|ops| {
                ops.iter()
                    .map(|op| {
                        let s = sys.clone();
                        let op = op.clone();
                        Box::new(move || s.exec(&op)) as OpFn<VRes>
                    })
                    .collect()
            })
            .collect();
        let mut chooser = make_chooser(src, nthreads, total * 6 + 4, rep);
        let exec = run(threads, chooser.as_mut(), if bulk > 0 { 60_000 } else { 12_000 });
        drop(chooser);
        match &exec.verdict {
            ExecVerdict::Completed => {}
            ExecVerdict::StepLimit | ExecVerdict::Halted => return Verdict::Discard("step limit"),
            ExecVerdict::Panic(m) => return fail(format!("panic:{}", m.chars().take(40).collect::<String>()), format!("{} ;; program {:?}", m, prog)),
            ExecVerdict::Stuck { spinners, blocked } => {
                return fail("stuck", format!("no thread can make progress (spinning {:?}, blocked {:?}) ;; program {:?}", spinners, blocked, prog))
            }
        }
        let mut hist: Vec<HOp<VOp, VRes>> = vec![];
        let mut ncoll = 0usize;
        for o in &exec.ops {
            if let Some(VRes::BadBackground(m)) = &o.result {
                return fail("collect-background-children-wrong", format!("{} ;; collect by thread {} at [{},{}] ;; program {:?}", m, o.thread, o.invoke, o.response.unwrap_or(0), prog));
            }
            let op = prog[o.thread][o.idx].clone();
            let res = o.result.clone().unwrap();
            let (invoke, response) = (o.invoke, o.response.unwrap());
            match (&op, &res) {
                (VOp::Collect, VRes::Snapshot(snap)) if !sequential => {
                    // a collection never shows the same label values twice
                    let mut keys: Vec<Tuple> = snap.iter().map(|x| x.0.clone()).collect();
                    let before = keys.len();
                    keys.dedup();
                    if keys.len() != before {
                        return fail("collect-duplicate-tuple", format!("{:?}", snap));
                    }
                    hist.push(HOp { op: VOp::CollectKeys { cid: ncoll }, res: VRes::Keys(keys), invoke, response });
                    for (t, v) in snap {
                        hist.push(HOp { op: VOp::CollectVal { cid: ncoll, t: t.clone() }, res: VRes::Val(*v), invoke, response });
                    }
                    ncoll += 1;
                }
                _ => hist.push(HOp { op, res, invoke, response }),
            }
        }
        // quiescent final state: a collection and a read through every handle
        let mut last = exec.trace.len() + 1;
        let fin = sys.exec(&VOp::Collect);
        if let VRes::BadBackground(m) = &fin {
            return fail("collect-background-children-wrong", format!("{} ;; quiescent collect after all threads finished ;; program {:?}", m, prog));
        }
        hist.push(HOp { op: VOp::Collect, res: fin, invoke: last, response: last + 1 });
        for hid in 0..next_hid {
            last += 2;
            hist.push(HOp { op: VOp::Get { hid }, res: sys.exec(&VOp::Get { hid }), invoke: last, response: last + 1 });
        }
        let describe = |hist: &Vec<HOp<VOp, VRes>>| {
            let h: Vec<String> = hist.iter().enumerate().map(|(i, h)| format!("#{} {:?} -> {:?} [{},{}]", i, h.op, h.res, h.invoke, h.response)).collect();
            format!("names {:?}, history {}", names, h.join("; "))
        };
        if hist.len() <= 64 {
            if linearize(&VModel::default(), &hist).is_none() {
                return fail("not-linearizable", describe(&hist));
            }
        } else {
            return Verdict::Discard("history longer than 64 operations");
        }
        // non-triviality
        let mut overlap = false;
        for (i, a) in hist.iter().enumerate() {
            for b in hist.iter().skip(i + 1) {
                let ov = a.invoke < b.response && b.invoke < a.response;
                if !ov {
                    continue;
                }
                let ta = match &a.op {
                    VOp::GetOrCreate { t, .. } | VOp::Remove { t, .. } => Some(t.clone()),
                    _ => None,
                };
                let tb = match &b.op {
                    VOp::GetOrCreate { t, .. } | VOp::Remove { t, .. } => Some(t.clone()),
                    _ => None,
                };
                let goc = |o: &VOp| matches!(o, VOp::GetOrCreate { .. });
                if (goc(&a.op) || goc(&b.op)) && ((ta.is_some() && ta == tb) || matches!(a.op, VOp::Reset) || matches!(b.op, VOp::Reset)) {
                    overlap = true;
                }
            }
        }
        let mut seq_interesting = false;
        if sequential {
            // re-creation after removal with a later use of an older handle
            let ops = &prog[0];
            for (i, o) in ops.iter().enumerate() {
                if let VOp::Remove { t, .. } = o {
                    let recreated = ops[i + 1..].iter().position(|x| matches!(x, VOp::GetOrCreate { t: t2, .. } if t2 == t));
                    if let Some(r) = recreated {
                        if ops[i + 1 + r..].iter().any(|x| matches!(x, VOp::Inc { .. } | VOp::Get { .. })) {
                            seq_interesting = true;
                        }
                    }
                }
            }
            rep.class("sequential-history");
        }
        rep.nontrivial = overlap || seq_interesting;
        if overlap {
            rep.class("overlapping-get-or-create/remove-on-one-tuple");
        }
        rep.class(match kind {
            0..=4 => "int-counter-vec",
            5 => "counter-vec",
            _ => "gauge-vec",
        });
        rep.count("steps", exec.trace.len() as u64);
        rep.count("context_switches", exec.switches as u64);
        if rep.want_sample {
            rep.sample = Some(format!("{} ;; {} steps, {} switches", describe(&hist), exec.trace.len(), exec.switches));
        }
        Verdict::Pass
    }
}
