//! C20 — registration macros are faithful shorthands for the explicit calls.
//!
//! The set of macro arms is finite and enumerated completely in the generated file `c20_arms.rs`
//! (108 arm x trailing-comma variants); every case drives every arm with generated run-time inputs.

use std::collections::HashMap;
use std::sync::atomic::{AtomicU64, Ordering};

use prometheus::core::{Collector, Desc};
use prometheus::{
    Counter, CounterVec, Gauge, GaugeVec, Histogram, HistogramOpts, HistogramVec, IntCounter, IntCounterVec, IntGauge,
    IntGaugeVec, Opts, Registry,
};

use super::c20_arms::{histogram_opts_arm, labels_arm, opts_arm, HISTOGRAM_OPTS_ARMS, LABELS_ARMS, OPTS_ARMS, REG_ARMS};
use crate::engine::{fail, Budget, Property, Report, Tier, Verdict};
use crate::neutral::{neutral_all, NValue};
use crate::src::Src;

pub struct C20;

#[derive(Clone, Copy, Debug, PartialEq)]
pub enum Kind {
    C,
    IC,
    G,
    IG,
    H,
    CV,
    ICV,
    GV,
    IGV,
    HV,
}

pub enum Handle {
    C(Counter),
    IC(IntCounter),
    G(Gauge),
    IG(IntGauge),
    H(Histogram),
    CV(CounterVec),
    ICV(IntCounterVec),
    GV(GaugeVec),
    IGV(IntGaugeVec),
    HV(HistogramVec),
}

thread_local! {
    static ORDER: std::cell::RefCell<Vec<u8>> = const { std::cell::RefCell::new(Vec::new()) };
}

/// Every argument expression of every macro invocation is wrapped in `ord(k, ..)` (k = its position): the explicit call evaluates
/// each argument once, left to right, and so must the macro.
pub fn ord<T>(k: u8, v: T) -> T {
    ORDER.with(|o| o.borrow_mut().push(k));
    v
}

pub fn reset_order() {
    ORDER.with(|o| o.borrow_mut().clear());
}

pub fn take_order() -> Vec<u8> {
    ORDER.with(|o| std::mem::take(&mut *o.borrow_mut()))
}

pub struct RegArm {
    pub text: &'static str,
    pub kind: Kind,
    /// the arm takes an options value (else name + help)
    pub opts_value: bool,
    pub labels: bool,
    pub buckets: bool,
    pub registry: bool,
    /// number of argument expressions of the invocation
    pub nargs: usize,
    pub call: fn(&ArmInput) -> prometheus::Result<Handle>,
}

pub struct ArmInput<'a> {
    pub name: String,
    pub help: String,
    pub consts: HashMap<String, String>,
    pub label_names: Vec<&'a str>,
    pub buckets: Vec<f64>,
    pub registry: Registry,
}

impl ArmInput<'_> {
    pub fn opts(&self) -> Opts {
        Opts::new(self.name.clone(), self.help.clone()).const_labels(self.consts.clone())
    }
    pub fn hopts(&self) -> HistogramOpts {
        HistogramOpts::new(self.name.clone(), self.help.clone()).const_labels(self.consts.clone()).buckets(self.buckets.clone())
    }
}

impl Handle {
    fn collector(&self) -> Box<dyn Collector> {
        match self {
            Handle::C(m) => Box::new(m.clone()),
            Handle::IC(m) => Box::new(m.clone()),
            Handle::G(m) => Box::new(m.clone()),
            Handle::IG(m) => Box::new(m.clone()),
            Handle::H(m) => Box::new(m.clone()),
            Handle::CV(m) => Box::new(m.clone()),
            Handle::ICV(m) => Box::new(m.clone()),
            Handle::GV(m) => Box::new(m.clone()),
            Handle::IGV(m) => Box::new(m.clone()),
            Handle::HV(m) => Box::new(m.clone()),
        }
    }
    fn desc(&self) -> Desc {
        self.collector().desc()[0].clone()
    }
    /// Update the handle (a child for vectors) by `amt`.
    fn update(&self, amt: u32, vals: &[&str]) {
        match self {
            Handle::C(m) => m.inc_by(amt as f64),
            Handle::IC(m) => m.inc_by(amt as u64),
            Handle::G(m) => m.add(amt as f64),
            Handle::IG(m) => m.add(amt as i64),
            Handle::H(m) => m.observe(amt as f64),
            Handle::CV(m) => m.with_label_values(vals).inc_by(amt as f64),
            Handle::ICV(m) => m.with_label_values(vals).inc_by(amt as u64),
            Handle::GV(m) => m.with_label_values(vals).add(amt as f64),
            Handle::IGV(m) => m.with_label_values(vals).add(amt as i64),
            Handle::HV(m) => m.with_label_values(vals).observe(amt as f64),
        }
    }
}

fn expected(kind: Kind, i: &ArmInput, arm: &RegArm) -> Handle {
    let opts = if arm.opts_value { i.opts() } else { Opts::new(i.name.clone(), i.help.clone()) };
    let mut hopts = HistogramOpts::from(opts.clone());
    if arm.buckets {
        hopts = hopts.buckets(i.buckets.clone());
    }
    match kind {
        Kind::C => Handle::C(Counter::with_opts(opts).unwrap()),
        Kind::IC => Handle::IC(IntCounter::with_opts(opts).unwrap()),
        Kind::G => Handle::G(Gauge::with_opts(opts).unwrap()),
        Kind::IG => Handle::IG(IntGauge::with_opts(opts).unwrap()),
        Kind::H => Handle::H(Histogram::with_opts(hopts).unwrap()),
        Kind::CV => Handle::CV(CounterVec::new(opts, &i.label_names).unwrap()),
        Kind::ICV => Handle::ICV(IntCounterVec::new(opts, &i.label_names).unwrap()),
        Kind::GV => Handle::GV(GaugeVec::new(opts, &i.label_names).unwrap()),
        Kind::IGV => Handle::IGV(IntGaugeVec::new(opts, &i.label_names).unwrap()),
        Kind::HV => Handle::HV(HistogramVec::new(hopts, &i.label_names).unwrap()),
    }
}

fn desc_diff(a: &Desc, b: &Desc) -> Option<String> {
    let lp = |d: &Desc| d.const_label_pairs.iter().map(|l| (l.name().to_string(), l.value().to_string())).collect::<Vec<_>>();
    if a.fq_name != b.fq_name {
        return Some(format!("fq_name {:?} vs {:?}", a.fq_name, b.fq_name));
    }
    if a.help != b.help {
        return Some(format!("help {:?} vs {:?}", a.help, b.help));
    }
    if lp(a) != lp(b) {
        return Some(format!("constant labels {:?} vs {:?}", lp(a), lp(b)));
    }
    if a.variable_labels != b.variable_labels {
        return Some(format!("variable labels {:?} vs {:?}", a.variable_labels, b.variable_labels));
    }
    if a.id != b.id || a.dim_hash != b.dim_hash {
        return Some("id / dim_hash differ".into());
    }
    None
}

/// Find the sample of `fq` (with the target's prefix) in `reg.gather()` and return (value-or-sum, bucket bounds).
fn find(reg: &Registry, prefix: &Option<String>, fq: &str) -> Option<(f64, Vec<f64>)> {
    let want = match prefix {
        Some(p) => format!("{}_{}", p, fq),
        None => fq.to_string(),
    };
    for f in neutral_all(&reg.gather()) {
        if f.name == want {
            let s = f.samples.first()?;
            return Some(match &s.value {
                NValue::Counter(v) | NValue::Gauge(v) => (*v, vec![]),
                NValue::Histogram { sum, buckets, .. } => (*sum, buckets.iter().map(|b| b.0).collect()),
                _ => return None,
            });
        }
    }
    None
}

static CASE: AtomicU64 = AtomicU64::new(0);

const BASES: &[&str] = &["m", "req_total", "a:b", "lat_seconds"];
const HELPS: &[&str] = &["h", "some help text", "é \"q\""];
const CN: &[&str] = &["c1", "k", "zone"];
const LN: &[&str] = &["l", "code", "a", "b2"];
const VALS: &[&str] = &["v", "", "é", "x y"];

impl Property for C20 {
    fn id(&self) -> &'static str {
        "C20"
    }
    fn rule(&self) -> &'static str {
        "the finite set of macro arms is enumerated completely (88 register_*! / register_*_with_registry! arm x trailing-comma \
         variants, 8 labels!, 8 opts! (0-3 label maps of generated sizes 0-5 over 5 keys, so later maps re-define keys of earlier ones), 6 histogram_opts! variants) and every case drives every arm with one generated input: a \
         unique valid name, help text, 0-2 constant labels, 1-3 label names, an accepted bucket list, and a registry without / with \
         prefix and common labels. Oracle per (arm, input): Ok(handle) whose descriptor equals the explicit constructor's field by \
         field (and whose collected bucket bounds equal the expected ones); a unique update through the handle is visible in gather() \
         of the targeted registry (the named one, or the default registry) and not in the other; every argument expression is evaluated exactly once (in which order is not part of the statement: the explicit equivalents of some arms build the options, buckets included, before they look at the label names); invoking the arm again - with the same input, and with another help text and a further constant label - evaluates to \
         Err and leaves the first metric registered with its value; labels!/opts!/histogram_opts! values equal the explicitly built ones. Non-trivial: the input has >= 1 constant label or \
         >= 2 label names or non-default buckets or a registry with prefix/labels. Distinct = decoded choices."
    }
    fn assumptions(&self) -> Vec<&'static str> {
        vec!["only valid constructor arguments are generated (the macros unwrap construction failures; that is outside the statement)"]
    }
    fn extra_coverage(&self) -> Vec<(&'static str, serde_json::Value)> {
        vec![
            ("arms_enumerated", serde_json::json!(REG_ARMS.len() + LABELS_ARMS + OPTS_ARMS + HISTOGRAM_OPTS_ARMS)),
            ("arms_covered_per_case", serde_json::json!(REG_ARMS.len() + LABELS_ARMS + OPTS_ARMS + HISTOGRAM_OPTS_ARMS)),
            ("exhaustive_over_arms", serde_json::json!(true)),
        ]
    }
    fn budget(&self, tier: Tier) -> Budget {
        match tier {
            Tier::Quick => Budget { cases: 8000, min_len: 8, max_len: 80 },
            Tier::Thorough => Budget { cases: 120000, min_len: 8, max_len: 100 },
        }
    }

    fn run(&self, src: &mut Src, rep: &mut Report) -> Verdict {
        let case = CASE.fetch_add(1, Ordering::Relaxed);
        let base = *src.pick(BASES);
        let help = src.pick(HELPS).to_string();
        let ncl = src.below(3);
        let mut consts: HashMap<String, String> = HashMap::new();
        for n in crate::pools::distinct(src, CN, ncl) {
            consts.insert(n.to_string(), src.pick(VALS).to_string());
        }
        let nln = 1 + src.below(3);
        let label_names: Vec<&str> = crate::pools::distinct(src, LN, nln);
        let nb = src.below(5);
        let mut buckets: Vec<f64> = (0..nb).map(|k| k as f64 * 3.0 + src.below(6) as f64 / 2.0).collect();
        buckets.dedup();
        // lists the constructor adjusts: a trailing +Inf (dropped), +Inf alone (no finite bucket at all)
        // ... and lists that begin like the default list: a prefix of it, the whole of it, or the whole of it with further bounds
        match src.below(12) {
            0 => buckets.push(f64::INFINITY),
            1 => buckets = vec![f64::INFINITY],
            8 => buckets = prometheus::DEFAULT_BUCKETS[..1 + src.below(prometheus::DEFAULT_BUCKETS.len())].to_vec(),
            9 => {
                buckets = prometheus::DEFAULT_BUCKETS.to_vec();
                buckets.extend([30.0, 60.0].iter().take(1 + src.below(2)));
            }
            _ => {}
        }
        let default_buckets = buckets.is_empty();
        let prefix = match src.below(3) {
            0 => None,
            1 => Some("p".to_string()),
            _ => Some("pre_fix".to_string()),
        };
        let common: Option<HashMap<String, String>> = if src.chance(128) {
            Some([("r1".to_string(), src.pick(VALS).to_string()), ("env".to_string(), "e".to_string())].into_iter().take(1 + src.below(2)).collect())
        } else {
            None
        };
        rep.nontrivial = !consts.is_empty() || label_names.len() >= 2 || !default_buckets || prefix.is_some() || common.is_some();
        let vals: Vec<&str> = label_names.iter().map(|_| *src.pick(VALS)).collect();
        let amt_base = 1 + src.below(1000) as u32;

        // ---- labels! / opts! / histogram_opts!
        {
            // (a third of the cases: keys drawn from two names, so that a key is written twice - the last value stands, as with inserts)
            let dup = src.chance(85);
            let ks: Vec<String> = (0..3).map(|j| if dup { format!("k{}", src.below(2)) } else { format!("k{}{}", j, src.pick(&["", "x"])) }).collect();
            let vs: Vec<String> = (0..3).map(|_| src.pick(VALS).to_string()).collect();
            for n in 0..4 {
                for comma in [false, true] {
                    let got = labels_arm(n, comma, &ks, &vs);
                    {
                        let mut order = take_order();
                        order.sort();
                        let want_order: Vec<u8> = (0..(2 * n) as u8).collect();
                        if order != want_order {
                            return fail("macro-argument-not-evaluated-exactly-once", format!("{}: the argument expressions at positions {:?} were evaluated (the explicit call evaluates each of them exactly once)", format!("labels! with {} pairs (comma {})", n, comma), order));
                        }
                    }
                    let want: HashMap<String, String> = ks.iter().cloned().zip(vs.iter().cloned()).take(n).collect();
                    if got != want {
                        return fail("labels-macro-differs", format!("labels! with {} pairs (trailing comma: {}) gave {:?}, expected {:?}", n, comma, got, want));
                    }
                }
            }
            // label maps of generated sizes over a small key pool, so that later maps re-define keys of earlier ones
            // (the later argument wins, as with Opts::const_labels applied to the merged map)
            let keys = ["a", "b", "c", "d", "e"];
            let mvals = ["1", "2", vals[0], ""];
            let mut maps: Vec<HashMap<&str, &str>> = vec![];
            for _ in 0..3 {
                let mut m = HashMap::new();
                for _ in 0..src.below(6) {
                    m.insert(keys[src.below(keys.len())], mvals[src.below(mvals.len())]);
                }
                maps.push(m);
            }
            for n in 0..4 {
                for comma in [false, true] {
                    let got = opts_arm(n, comma, base, &help, &maps[0], &maps[1], &maps[2]);
                    {
                        let mut order = take_order();
                        order.sort();
                        let want_order: Vec<u8> = (0..(2 + n) as u8).collect();
                        if order != want_order {
                            return fail("macro-argument-not-evaluated-exactly-once", format!("{}: the argument expressions at positions {:?} were evaluated (the explicit call evaluates each of them exactly once)", format!("opts! with {} label maps (comma {})", n, comma), order));
                        }
                    }
                    let mut want: HashMap<String, String> = HashMap::new();
                    for m in maps.iter().take(n) {
                        want.extend(m.iter().map(|(k, v)| (k.to_string(), v.to_string())));
                    }
                    if got.name != base || got.help != help || got.const_labels != want || !got.namespace.is_empty() || !got.subsystem.is_empty() || !got.variable_labels.is_empty() {
                        return fail("opts-macro-differs", format!("opts! with the first {} of the label maps {:?} (comma {}) gave {:?}, expected name {:?} help {:?} labels {:?}", n, maps, comma, got, base, help, want));
                    }
                }
            }
            if maps.windows(2).any(|w| w[1].len() > w[0].len() && w[1].iter().any(|(k, v)| w[0].get(k).map_or(false, |o| o != v))) {
                rep.class("opts!:larger-later-map-redefines-a-key");
            }
            for n in 0..3 {
                for comma in [false, true] {
                    let got = histogram_opts_arm(n, comma, base, &help, &buckets, &consts);
                    {
                        let mut order = take_order();
                        order.sort();
                        let want_order: Vec<u8> = (0..(2 + n) as u8).collect();
                        if order != want_order {
                            return fail("macro-argument-not-evaluated-exactly-once", format!("{}: the argument expressions at positions {:?} were evaluated (the explicit call evaluates each of them exactly once)", format!("histogram_opts! arm {} (comma {})", n, comma), order));
                        }
                    }
                    let want_b: Vec<f64> = if n >= 1 { buckets.clone() } else { prometheus::DEFAULT_BUCKETS.to_vec() };
                    let want_c: HashMap<String, String> = if n >= 2 { consts.clone() } else { HashMap::new() };
                    if got.common_opts.name != base || got.common_opts.help != help || got.buckets != want_b || got.common_opts.const_labels != want_c {
                        return fail("histogram-opts-macro-differs", format!("histogram_opts! arm {} (comma {}) gave {:?}, expected buckets {:?} labels {:?}", n, comma, got, want_b, want_c));
                    }
                }
            }
        }

        // ---- every register arm
        for (ai, arm) in REG_ARMS.iter().enumerate() {
            let registry = match Registry::new_custom(prefix.clone(), common.clone()) {
                Ok(r) => r,
                Err(e) => return fail("valid-registry-rejected", e.to_string()),
            };
            let input = ArmInput {
                name: format!("c20_{}_{}_{}", case, ai, base),
                help: help.clone(),
                consts: consts.clone(),
                label_names: label_names.clone(),
                buckets: buckets.clone(),
                registry: registry.clone(),
            };
            let ctx = |what: &str| format!("{} :: {} ;; name={:?} help={:?} consts={:?} labels={:?} buckets={:?} prefix={:?} common={:?}", arm.text, what, input.name, help, consts, label_names, buckets, prefix, common);
            let r = std::panic::catch_unwind(std::panic::AssertUnwindSafe(|| (arm.call)(&input)));
            {
                let mut order = take_order();
                order.sort();
                let want_order: Vec<u8> = (0..arm.nargs as u8).collect();
                if order != want_order {
                    if let Ok(Ok(h)) = &r {
                        let _ = if arm.registry { registry.unregister(h.collector()) } else { prometheus::unregister(h.collector()) };
                    }
                    return fail("macro-argument-not-evaluated-exactly-once", ctx(&format!("the argument expressions at positions {:?} were evaluated (the explicit call evaluates each of them exactly once)", order)));
                }
            }
            let handle = match r {
                Err(_) => return fail("macro-panicked", ctx("panicked on valid input")),
                Ok(Err(e)) => return fail("macro-refused-valid-registration", ctx(&format!("evaluated to Err({})", e))),
                Ok(Ok(h)) => h,
            };
            let want = expected(arm.kind, &input, arm);
            if let Some(d) = desc_diff(&handle.desc(), &want.desc()) {
                let _ = if arm.registry { registry.unregister(handle.collector()) } else { prometheus::unregister(handle.collector()) };
                return fail("macro-metric-differs-from-explicit", ctx(&format!("descriptor differs from the explicit constructor's: {}", d)));
            }
            // registered where it should be, and the returned handle is the registered metric
            let amt = amt_base + ai as u32;
            handle.update(amt, &vals);
            let fq = handle.desc().fq_name.clone();
            let (target, tprefix, other, oprefix): (&Registry, Option<String>, &Registry, Option<String>) = if arm.registry {
                (&registry, prefix.clone(), prometheus::default_registry(), None)
            } else {
                (prometheus::default_registry(), None, &registry, prefix.clone())
            };
            let seen = find(target, &tprefix, &fq);
            let elsewhere = find(other, &oprefix, &fq);
            let unregister = |h: &Handle| {
                let _ = if arm.registry { registry.unregister(h.collector()) } else { prometheus::unregister(h.collector()) };
            };
            match &seen {
                None => {
                    unregister(&handle);
                    let _ = other.unregister(handle.collector());
                    return fail("macro-registered-in-wrong-registry", ctx(&format!("metric not found in the {} registry (found elsewhere: {})", if arm.registry { "named" } else { "default" }, elsewhere.is_some())));
                }
                Some((v, bounds)) => {
                    if *v != amt as f64 {
                        unregister(&handle);
                        return fail("macro-handle-is-not-the-registered-metric", ctx(&format!("updated the returned handle by {} but the registered metric reads {}", amt, v)));
                    }
                    if matches!(arm.kind, Kind::H | Kind::HV) {
                        // what the explicit constructor makes of the list (C08's acceptance predicate: a trailing +Inf is dropped, an
                        // empty list selects the defaults)
                        let want_b: Vec<f64> = if arm.buckets { crate::props::c08::accept(&buckets).expect("generated bucket lists are valid") } else { prometheus::DEFAULT_BUCKETS.to_vec() };
                        if *bounds != want_b {
                            unregister(&handle);
                            return fail("macro-buckets-differ", ctx(&format!("collected bucket bounds {:?}, expected {:?}", bounds, want_b)));
                        }
                    }
                }
            }
            if elsewhere.is_some() {
                unregister(&handle);
                let _ = other.unregister(handle.collector());
                return fail("macro-registered-in-both-registries", ctx("metric also visible in the registry that was not named"));
            }
            // the same arm again: the registration is refused and the macro evaluates to Err
            let again = std::panic::catch_unwind(std::panic::AssertUnwindSafe(|| (arm.call)(&input)));
            match again {
                Err(_) => {
                    unregister(&handle);
                    return fail("macro-panicked-on-refused-registration", ctx("second invocation panicked"));
                }
                Ok(Ok(h2)) => {
                    unregister(&handle);
                    unregister(&h2);
                    return fail("macro-ok-on-refused-registration", ctx("second invocation with the same input evaluated to Ok"));
                }
                Ok(Err(_)) => {}
            }
            // a second kind of refusal: the same name with another help text and another constant-label value (a different descriptor
            // that disagrees with what the name stands for): Err, not a panic and not Ok - whatever error it is
            {
                let mut consts2 = input.consts.clone();
                consts2.insert("c20_other".to_string(), "v".to_string());
                let input2 = ArmInput {
                    name: input.name.clone(),
                    help: format!("{} (another help)", input.help),
                    consts: consts2,
                    label_names: input.label_names.clone(),
                    buckets: input.buckets.clone(),
                    registry: input.registry.clone(),
                };
                match std::panic::catch_unwind(std::panic::AssertUnwindSafe(|| (arm.call)(&input2))) {
                    Err(_) => {
                        unregister(&handle);
                        return fail("macro-panicked-on-refused-registration", ctx("an invocation under the registered name with another help text and constant label panicked"));
                    }
                    Ok(Ok(h2)) => {
                        unregister(&handle);
                        unregister(&h2);
                        return fail("macro-ok-on-refused-registration", ctx("an invocation under the registered name with another help text was accepted"));
                    }
                    Ok(Err(_)) => {}
                }
                let _ = take_order();
            }
            // ... and, like the refused explicit call, leaves the metric registered before it where it is
            match find(target, &tprefix, &fq) {
                Some((v, _)) if v == amt as f64 => {}
                got => {
                    unregister(&handle);
                    return fail(
                        "refused-macro-disturbed-the-registered-metric",
                        ctx(&format!("after a second, refused invocation the first metric reads {:?} in its registry (expected {})", got.map(|g| g.0), amt)),
                    );
                }
            }
            unregister(&handle);
            if find(target, &tprefix, &fq).is_some() {
                return fail("unregister-left-metric", ctx("metric still gathered after unregistering the handle"));
            }
        }
        rep.class("all-arms-driven");
        if rep.want_sample {
            rep.sample = Some(format!(
                "base={:?} help={:?} consts={:?} labels={:?} buckets={:?} prefix={:?} common={:?} x {} arms",
                base,
                help,
                consts,
                label_names,
                buckets,
                prefix,
                common,
                REG_ARMS.len() + LABELS_ARMS + OPTS_ARMS + HISTOGRAM_OPTS_ARMS
            ));
        }
        Verdict::Pass
    }
}
