//! C08 — bucket counts follow `value <= upper bound` for every input; acceptance of bucket lists.

use prometheus::core::{Collector, Metric};
use prometheus::{Histogram, HistogramOpts, HistogramVec};

use crate::engine::{fail, Budget, Property, Report, Tier, Verdict};
use crate::ensure;
use crate::neutral::{feq, neutral, show_f64, NValue};
use crate::src::Src;

pub struct C08;

pub const DEFAULT_BUCKETS: &[f64] = &[0.005, 0.01, 0.025, 0.05, 0.1, 0.25, 0.5, 1.0, 2.5, 5.0, 10.0];

/// The acceptance predicate of the property statement. Returns the adjusted bounds when accepted.
pub fn accept(list: &[f64]) -> Option<Vec<f64>> {
    if list.is_empty() {
        return Some(DEFAULT_BUCKETS.to_vec());
    }
    if list.iter().any(|b| b.is_nan()) {
        return None;
    }
    for w in list.windows(2) {
        if !(w[0] < w[1]) {
            return None;
        }
    }
    let mut v = list.to_vec();
    if *v.last().unwrap() == f64::INFINITY {
        v.pop();
    }
    Some(v)
}

fn gen_list(src: &mut Src, rep: &mut Report) -> Vec<f64> {
    let n = src.below(13);
    let mut v: Vec<f64> = (0..n)
        .map(|_| {
            let x = src.f64v(&[]);
            if x.is_nan() {
                0.5
            } else {
                x
            }
        })
        .collect();
    v.sort_by(|a, b| a.partial_cmp(b).unwrap());
    v.dedup_by(|a, b| a == b);
    // perturbations
    let p = src.below(16);
    match p {
        0..=3 => {}
        4 | 5 => {
            // what users write: the crate's own helpers (evenly spaced / geometric lists, bounds that carry rounding error)
            let count = 1 + src.below(40);
            let made = if p == 4 {
                let start = [0.0, 0.1, -1.0, 5.0, 0.3, 1e-3][src.below(6)];
                let width = [0.3, 0.7, 0.1, 1.0, 0.25, 1e-3, 3.3][src.below(7)];
                prometheus::linear_buckets(start, width, count)
            } else {
                let start = [0.001, 1.0, 0.3, 0.1, 5e-324][src.below(5)];
                let factor = [2.0, 1.1, 10.0, 1.5, 1.000_000_1][src.below(5)];
                prometheus::exponential_buckets(start, factor, count)
            };
            if let Ok(l) = made {
                v = l;
                rep.class(if p == 4 { "list:linear_buckets()" } else { "list:exponential_buckets()" });
            }
        }
        6 => {
            // wide configuration: 20-129 further bounds on an increasing ladder (the library imposes no limit on the number)
            if v.last().map_or(false, |l| !(l.abs() < 1e15)) {
                v.clear();
            }
            let mut x = v.last().copied().unwrap_or(-3.0);
            let m = 20 + src.below(110);
            let step = [1.0, 0.5, 0.25, 3.0, 1024.0][src.below(5)];
            let geometric = src.chance(64);
            for k in 0..m {
                x = if geometric && x > 0.0 { x * 1.5 } else { x + step * (1 + k % 3) as f64 };
                v.push(x);
            }
            rep.class("list:wide(>=20 bounds)");
        }
        7 if v.len() >= 2 => {
            let i = src.below(v.len());
            let j = src.below(v.len());
            v.swap(i, j);
            rep.class("list:swapped");
        }
        8 if !v.is_empty() => {
            let i = src.below(v.len());
            let d = v[i];
            v.insert(i, d);
            rep.class("list:duplicate");
        }
        9 => {
            let i = src.below(v.len() + 1);
            v.insert(i, f64::NAN);
            rep.class("list:nan");
        }
        10 => {
            v.push(f64::INFINITY);
            rep.class("list:trailing-inf");
        }
        11 => {
            let i = src.below(v.len() + 1);
            v.insert(i, f64::INFINITY);
            rep.class("list:inf-anywhere");
        }
        12 => {
            v.insert(0, f64::NEG_INFINITY);
            rep.class("list:leading-neg-inf");
        }
        13 => {
            // -0.0 next to 0.0
            if let Some(i) = v.iter().position(|x| *x == 0.0) {
                let z = if src.chance(128) { -0.0 } else { 0.0 };
                v.insert(i + src.below(2), z);
            } else {
                v.push(-0.0);
                v.push(0.0);
            }
            rep.class("list:signed-zero-pair");
        }
        14 => {
            v.clear();
            rep.class("list:empty");
        }
        _ => {
            v.push(f64::NAN);
            rep.class("list:nan");
        }
    }
    v
}

struct Model {
    bounds: Vec<f64>,
    obs: Vec<f64>, // everything that reached the shared histogram, in order
    sum: f64,
}

impl Model {
    fn observe(&mut self, v: f64) {
        self.obs.push(v);
        self.sum += v;
    }
    fn flush(&mut self, batch: &[f64]) {
        if batch.is_empty() {
            return;
        }
        let mut s = 0.0;
        for v in batch {
            s += *v;
        }
        self.obs.extend_from_slice(batch);
        self.sum += s;
    }
    fn cumulative(&self) -> Vec<u64> {
        self.bounds.iter().map(|b| self.obs.iter().filter(|v| **v <= *b).count() as u64).collect()
    }
}

impl Property for C08 {
    fn id(&self) -> &'static str {
        "C08"
    }
    fn rule(&self) -> &'static str {
        "case = bucket list (sorted distinct f64 of every class, then perturbed: swap / duplicate / NaN / +Inf trailing or anywhere / \
         -Inf first / signed-zero pair / empty / produced by linear_buckets() or exponential_buckets() with 1-40 bounds / wide: 20-129 further bounds on an arithmetic or geometric ladder) x delivery path (Histogram, HistogramVec child, LocalHistogram) x 0-40 operations \
         (observe of bounds, bounds +-1ulp, +-0, subnormals, +-inf, NaN, arbitrary bit patterns; local observe/flush/clear/clone+drop; collect). \
         Oracle: acceptance predicate of the statement; naive count(v <= b), n, in-order fold reference. Non-trivial: accepted list \
         with >=2 bounds and an observation equal to a bound / non-finite / above every bound, or a rejected list whose defect is not \
         a descending finite pair. Distinct = hash of decoded choices."
    }
    fn assumptions(&self) -> Vec<&'static str> {
        vec![
            "single-threaded histories: the sample sum is compared bit-exactly (NaN~NaN) with the left fold in observation order; \
             a flushed local batch contributes its own fold in one addition",
            "for HistogramVec the configuration counts as rejected when either the constructor or the first child request returns Err",
        ]
    }
    fn budget(&self, tier: Tier) -> Budget {
        match tier {
            Tier::Quick => Budget { cases: 1000000, min_len: 4, max_len: 300 },
            Tier::Thorough => Budget { cases: 20000000, min_len: 4, max_len: 500 },
        }
    }

    fn run(&self, src: &mut Src, rep: &mut Report) -> Verdict {
        let list = gen_list(src, rep);
        let path = src.below(3); // 0 Histogram, 1 HistogramVec child, 2 Histogram + LocalHistogram
        let want = accept(&list);
        let opts = HistogramOpts::new("h", "help").buckets(list.clone());
        let (hist, got_ok): (Option<Histogram>, bool) = match path {
            1 => match HistogramVec::new(opts, &["l"]) {
                Err(_) => (None, false),
                Ok(v) => match v.get_metric_with_label_values(&["x"]) {
                    Ok(h) => (Some(h), true),
                    Err(_) => (None, false),
                },
            },
            _ => match Histogram::with_opts(opts) {
                Ok(h) => (Some(h), true),
                Err(_) => (None, false),
            },
        };
        let listing: Vec<String> = list.iter().map(|x| show_f64(*x)).collect();
        ensure!(
            got_ok == want.is_some(),
            if got_ok { "invalid-buckets-accepted" } else { "valid-buckets-rejected" },
            "bucket list [{}] was {} but the statement says it must be {}",
            listing.join(", "),
            if got_ok { "accepted" } else { "rejected" },
            if want.is_some() { "accepted" } else { "rejected" }
        );
        let Some(bounds) = want else {
            // rejected, as required
            let descending_finite = list.windows(2).any(|w| w[0].is_finite() && w[1].is_finite() && w[0] > w[1]);
            rep.nontrivial = !descending_finite;
            rep.class("rejected");
            if rep.want_sample {
                rep.sample = Some(format!("buckets=[{}] path={} -> rejected", listing.join(", "), path));
            }
            return Verdict::Pass;
        };
        let hist = hist.unwrap();
        rep.class("accepted");
        rep.class(["path:histogram", "path:vec-child", "path:local"][path]);
        // (a quarter of the local handles started life on another histogram - one bound - and were pointed at this one with
        // Clone::clone_from, which leaves a handle that is in every respect a fresh local of this histogram)
        let local = if path == 2 {
            if src.chance(64) {
                let other = Histogram::with_opts(HistogramOpts::new("other", "h").buckets(vec![0.5])).unwrap();
                let mut l = other.local();
                l.clone_from(&hist.local());
                rep.class("local-handle-re-targeted-with-clone_from");
                Some(l)
            } else {
                Some(hist.local())
            }
        } else {
            None
        };
        let mut model = Model { bounds: bounds.clone(), obs: vec![], sum: 0.0 };
        let mut pending: Vec<f64> = vec![];
        let nops = src.below(41);
        let mut log = vec![];
        let mut interesting = false;
        for _ in 0..nops {
            let op = src.below(10);
            match (op, &local) {
                (0..=5, _) | (6..=7, None) => {
                    let v = src.f64v(&bounds);
                    if bounds.iter().any(|b| *b == v) || !v.is_finite() || bounds.iter().all(|b| v > *b) {
                        interesting = true;
                    }
                    if let (Some(l), true) = (&local, op >= 2) {
                        l.observe(v);
                        pending.push(v);
                        if rep.want_sample {
                            log.push(format!("lobs({})", show_f64(v)));
                        }
                    } else {
                        hist.observe(v);
                        model.observe(v);
                        if rep.want_sample {
                            log.push(format!("obs({})", show_f64(v)));
                        }
                    }
                }
                (6, Some(l)) => {
                    l.flush();
                    model.flush(&pending);
                    pending.clear();
                    log.push("flush".into());
                }
                (7, Some(l)) => {
                    l.clear();
                    pending.clear();
                    log.push("clear".into());
                }
                (8, Some(l)) => {
                    // a clone of a local histogram starts empty; dropping it flushes what it holds, i.e. nothing
                    let c = l.clone();
                    ensure!(
                        c.get_sample_count() == 0 && c.get_sample_sum() == 0.0,
                        "local-clone-not-empty",
                        "clone of a LocalHistogram with {} pending observations reports count={} sum={}",
                        pending.len(),
                        c.get_sample_count(),
                        show_f64(c.get_sample_sum())
                    );
                    drop(c);
                    if !pending.is_empty() {
                        rep.class("local-cloned-while-observations-pending");
                    }
                    log.push("clone+drop".into());
                    if let Err(v) = check(&hist, &model, path, src.chance(128)) {
                        return v;
                    }
                }
                _ => {
                    log.push("collect".into());
                    rep.class("collect-interleaved");
                    if let Err(v) = check(&hist, &model, path, src.chance(128)) {
                        return v;
                    }
                }
            }
            if let Some(l) = &local {
                let mut s = 0.0;
                for v in &pending {
                    s += *v;
                }
                ensure!(
                    l.get_sample_count() == pending.len() as u64 && feq(l.get_sample_sum(), s),
                    "local-pending-mismatch",
                    "LocalHistogram reports count={} sum={} but {} unflushed observations fold to {}",
                    l.get_sample_count(),
                    show_f64(l.get_sample_sum()),
                    pending.len(),
                    show_f64(s)
                );
            }
        }
        if let Some(l) = &local {
            l.flush();
            model.flush(&pending);
            pending.clear();
        }
        if let Err(v) = check(&hist, &model, path, true) {
            return v;
        }
        ensure!(
            hist.get_sample_count() == model.obs.len() as u64 && feq(hist.get_sample_sum(), model.sum),
            "count-sum-getters-mismatch",
            "get_sample_count={} get_sample_sum={} but reference n={} sum={}",
            hist.get_sample_count(),
            show_f64(hist.get_sample_sum()),
            model.obs.len(),
            show_f64(model.sum)
        );
        rep.nontrivial = bounds.len() >= 2 && interesting;
        if rep.want_sample {
            rep.sample = Some(format!("buckets=[{}] path={} :: {}", listing.join(", "), path, log.join(" ")));
        }
        Verdict::Pass
    }
}

fn check(hist: &Histogram, model: &Model, path: usize, via_collect: bool) -> Result<(), Verdict> {
    let (count, sum, buckets) = if via_collect || path == 1 {
        let fams = hist.collect();
        let f = neutral(&fams[0]);
        match &f.samples[0].value {
            NValue::Histogram { count, sum, buckets } => (*count, *sum, buckets.clone()),
            o => return Err(fail("collect-shape", format!("{:?}", o))),
        }
    } else {
        let m = hist.metric();
        let h = m.get_histogram();
        (
            h.get_sample_count(),
            h.get_sample_sum(),
            h.get_bucket().iter().map(|b| (b.upper_bound(), b.cumulative_count())).collect::<Vec<_>>(),
        )
    };
    // numerically equal bounds (an implementation may normalise -0.0)
    let same_bounds = buckets.len() == model.bounds.len() && buckets.iter().zip(&model.bounds).all(|(g, w)| g.0 == *w);
    if !same_bounds {
        return Err(fail(
            "exposed-bounds-differ",
            format!("exposed bounds {:?} but the adjusted configuration is {:?}", buckets.iter().map(|b| b.0).collect::<Vec<_>>(), model.bounds),
        ));
    }
    let want_cum = model.cumulative();
    let got_cum: Vec<u64> = buckets.iter().map(|b| b.1).collect();
    if got_cum != want_cum {
        return Err(fail(
            "bucket-count-mismatch",
            format!(
                "bounds {:?}: cumulative counts {:?} but count(v <= bound) over observations {:?} is {:?}",
                model.bounds,
                got_cum,
                model.obs.iter().map(|v| show_f64(*v)).collect::<Vec<_>>(),
                want_cum
            ),
        ));
    }
    if count != model.obs.len() as u64 {
        return Err(fail("sample-count-mismatch", format!("sample count {} but {} observations", count, model.obs.len())));
    }
    if !feq(sum, model.sum) {
        return Err(fail(
            "sample-sum-mismatch",
            format!("sample sum {} but in-order fold is {} over {:?}", show_f64(sum), show_f64(model.sum), model.obs),
        ));
    }
    Ok(())
}
