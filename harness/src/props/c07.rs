//! C07 — gather() is complete, canonically ordered and deterministic.

use prometheus::TextEncoder;

use crate::engine::{fail, Budget, Property, Report, Stats, Tier, Verdict};
use crate::ensure;
use crate::neutral::{neutral_all, show_families, NFamily};
use crate::scenario::{build, describe, expected, gen_scenario, Scenario};
use crate::src::Src;

pub struct C07;

fn sorted_labels(f: &NFamily) -> NFamily {
    let mut g = f.clone();
    for s in g.samples.iter_mut() {
        s.labels.sort();
    }
    g
}

pub fn gathered(s: &Scenario, order: &[usize]) -> Result<(Vec<NFamily>, String), String> {
    let reg = build(s, order)?;
    let fams = reg.gather();
    let text = TextEncoder::new().encode_to_string(&fams).map_err(|e| format!("encode: {}", e))?;
    Ok((neutral_all(&fams), text))
}

pub fn check_scenario(s: &Scenario, src: &mut Src, rebuilds: usize) -> Verdict {
    let n = s.colls.len();
    let ident: Vec<usize> = (0..n).collect();
    let (first, text0) = match gathered(s, &ident) {
        Ok(x) => x,
        Err(e) => return fail("valid-scenario-rejected", format!("{} ;; {}", e, describe(s))),
    };
    let want = expected(&s.effective());
    // (1) model
    if let Err(v) = check_against(&first, &want, s) {
        return v;
    }
    // (2) determinism across registration orders and hash seeds (every HashMap in every fresh
    // registry has its own RandomState)
    for r in 0..rebuilds {
        let order = src.perm(n);
        let (again, text) = match gathered(s, &order) {
            Ok(x) => x,
            Err(e) => return fail("valid-scenario-rejected", format!("order {:?}: {} ;; {}", order, e, describe(s))),
        };
        ensure!(
            crate::neutral::families_same(&first, &again, false),
            "gather-not-deterministic",
            "rebuild {} with registration order {:?} gathered {} but the first build gathered {} ;; {}",
            r, order, show_families(&again), show_families(&first), describe(s)
        );
        ensure!(text == text0, "text-not-deterministic", "rebuild {} order {:?}: {:?} vs {:?}", r, order, text, text0);
    }
    Verdict::Pass
}

/// A registry that has been gathered is changed through second handles to its metrics (vectors reset and refilled, emptied, one child
/// removed or added; gauges set again) and gathered again, 1-3 times: every gather shows exactly the state of its moment.
pub fn check_epochs(s: &Scenario, src: &mut Src, rep: &mut Report) -> Verdict {
    let ident: Vec<usize> = (0..s.colls.len()).collect();
    let (reg, mut handles) = match crate::scenario::build_h(s, &ident) {
        Ok(x) => x,
        Err(e) => return fail("valid-scenario-rejected", format!("{} ;; {}", e, describe(s))),
    };
    if let Err(v) = check_against(&neutral_all(&reg.gather()), &expected(&s.effective()), s) {
        return v;
    }
    let mut cur = s.clone();
    let mut changes: Vec<String> = vec![];
    for epoch in 0..1 + src.below(3) {
        let (next, log) = crate::scenario::mutate(src, &cur, &mut handles, &reg);
        if let Some(bad) = log.iter().find(|l| l.contains("FAILED")) {
            return fail("valid-registry-operation-refused", format!("{} ;; {}", bad, describe(&cur)));
        }
        changes.extend(log.iter().map(|l| format!("epoch {}: {}", epoch + 1, l)));
        cur = next;
        if let Err(v) = check_against(&neutral_all(&reg.gather()), &expected(&cur.effective()), &cur) {
            return match v {
                Verdict::Fail { sig, detail } => Verdict::Fail { sig, detail: format!("after changes to a registry that had been gathered before [{}]: {}", changes.join("; "), detail) },
                v => v,
            };
        }
    }
    if !changes.is_empty() {
        rep.class("changed-and-gathered-again");
    }
    Verdict::Pass
}

fn check_against(first: &[NFamily], want: &[NFamily], s: &Scenario) -> Result<(), Verdict> {
    macro_rules! ensure {
        ($c:expr, $sig:expr, $($arg:tt)*) => {
            if !$c {
                return Err(fail($sig, format!($($arg)*)));
            }
        };
    }
    ensure!(
        first.len() == want.len(),
        "family-count-differs",
        "gather() returned {} families, expected {} ;; got {} ;; want {} ;; {}",
        first.len(), want.len(), show_families(&first), show_families(&want), describe(s)
    );
    for w in first.windows(2) {
        ensure!(w[0].name < w[1].name, "families-not-strictly-increasing", "{:?} then {:?} ;; {}", w[0].name, w[1].name, describe(s));
    }
    for (g, w) in first.iter().zip(want) {
        ensure!(g.name == w.name, "family-name-differs", "got {:?} want {:?} ;; {}", g.name, w.name, describe(s));
        ensure!(g.help == w.help, "family-help-differs", "{}: got {:?} want {:?}", g.name, g.help, w.help);
        ensure!(g.ty == w.ty, "family-type-differs", "{}: got {:?} want {:?} ;; {}", g.name, g.ty, w.ty, describe(s));
        ensure!(
            g.samples.len() == w.samples.len(),
            "sample-count-differs",
            "{}: {} samples, expected {} ;; got {} ;; {}",
            g.name, g.samples.len(), w.samples.len(), show_families(&[g.clone()]), describe(s)
        );
        let gs = sorted_labels(g);
        let ws = sorted_labels(w);
        // every expected sample exactly once (as a multiset) ...
        let mut a: Vec<String> = gs.samples.iter().map(|x| format!("{:?}", (&x.labels, &x.value))).collect();
        let mut b: Vec<String> = ws.samples.iter().map(|x| format!("{:?}", (&x.labels, &x.value))).collect();
        a.sort();
        b.sort();
        ensure!(a == b, "sample-set-differs", "{}: got {:?} want {:?} ;; {}", g.name, a, b, describe(s));
        // ... and in the prescribed order
        for (i, (x, y)) in gs.samples.iter().zip(&ws.samples).enumerate() {
            ensure!(
                x.same(y, false),
                "sample-order-differs",
                "{}: position {} holds {:?} but lexicographic order by label values puts {:?} there ;; {}",
                g.name, i, x.labels, y.labels, describe(s)
            );
        }
    }
    Ok(())
}

impl Property for C07 {
    fn id(&self) -> &'static str {
        "C07"
    }
    fn rule(&self) -> &'static str {
        "case = scenario of 1-4 metric names (pool with shared prefixes a/a_b/ab/a_total...), each with 1-3 collectors of one kind \
         (Counter, IntCounter, Gauge, IntGauge, Histogram, PullingGauge, the five vector kinds with 0-6 children) that share help and \
         label names and differ in constant-label values; in 17% of the scenarios with 2+ collectors some are registered together as a composite \
         collector whose collect() order is unrelated to its desc() order; label values from the adversarial fragment pool; registry with no/one of \
         two prefixes and 0-4 common labels; 5 further rebuilds in fresh registries under generated registration permutations (each \
         HashMap gets a fresh RandomState). Oracle: model of the prescribed result (names strictly increasing, every sample exactly \
         once, lexicographic by label values, help, type, prefix, common labels) + all rebuilds and their text encodings identical; a third of the cases then change the gathered registry through second handles (vectors reset and refilled with the same tuples, \
         emptied, one child removed or added; gauges set again; a collector unregistered, or unregistered and registered again) 1-3 times and compare every further gather with the model of its moment. \
         Non-trivial: >=2 collectors share a name, or a vector has >=3 children, or >=2 common labels. Distinct = decoded choices."
    }
    fn assumptions(&self) -> Vec<&'static str> {
        vec![
            "the order of labels inside a sample is not prescribed by the model, only required to be identical in every rebuild",
            "a registry common label named like a metric's own label is applied like any other (that the sample then carries the name twice is C09's known finding, not a C07 matter)",
        ]
    }
    fn budget(&self, tier: Tier) -> Budget {
        match tier {
            Tier::Quick => Budget { cases: 80000, min_len: 8, max_len: 300 },
            Tier::Thorough => Budget { cases: 1500000, min_len: 8, max_len: 400 },
        }
    }

    fn run(&self, src: &mut Src, rep: &mut Report) -> Verdict {
        let mut s = gen_scenario(src, false);
        if crate::scenario::collision_pair_blocks_registration(&s) {
            return Verdict::Discard("two metric names with equal 64-bit FNV-1a hash and equal constant-label values: the second registration is refused (known finding, see C15)");
        }
        // a sixth of the cases: one registry common label has the name of a label some collector uses itself
        if src.chance(40) && crate::scenario::add_common_clash(src, &mut s) {
            rep.class("common-label-named-like-an-own-label");
        }
        let mut names: Vec<&str> = s.colls.iter().map(|c| c.name.as_str()).collect();
        names.sort();
        let shared = names.windows(2).any(|w| w[0] == w[1]);
        let big_vec = s.colls.iter().any(|c| c.children.len() >= 3);
        let ncommon = s.common.as_ref().map_or(0, |c| c.len());
        rep.nontrivial = shared || big_vec || ncommon >= 2;
        if shared {
            rep.class("collectors-share-a-name");
        }
        if big_vec {
            rep.class("vector-with-3+-children");
        }
        if ncommon >= 2 {
            rep.class("2+-common-labels");
        }
        if s.prefix.is_some() {
            rep.class("with-prefix");
        }
        if s.colls.iter().any(|c| c.children.is_empty()) {
            rep.class("empty-vector");
        }
        if !s.bundles.is_empty() {
            rep.class("composite-collector(families returned in another order than the descriptors)");
        }
        if s.bundles.iter().any(|b| b.nested) {
            rep.class("composite-collector-gathers-a-registry-of-its-own");
        }
        if rep.want_sample {
            rep.sample = Some(describe(&s));
        }
        match check_scenario(&s, src, 5) {
            Verdict::Pass => {}
            v => return v,
        }
        // a third of the cases go on: the registry is changed after a gather and gathered again
        if src.chance(85) {
            return check_epochs(&s, src, rep);
        }
        Verdict::Pass
    }

    fn post(&self, tier: Tier, seed: u64, stats: &mut Stats) -> Result<(), (String, String, Vec<u8>)> {
        // cross-process determinism: re-execute a fixed batch of scenarios in fresh processes and
        // compare the digests of their gathered text (per-process hash seeds differ).
        crate::props::c07::cross_process(tier, seed, stats)
    }
}

/// Digest of the text encodings of `n` scenarios generated from `seed` (used by `pv c07-digest`).
pub fn digest_batch(seed: u64, n: usize) -> Vec<(Vec<u8>, u64)> {
    let mut out = vec![];
    let mut x = seed;
    for _ in 0..n {
        let mut bytes = vec![0u8; 200];
        for b in bytes.iter_mut() {
            x = crate::engine::splitmix(x);
            *b = (x >> 24) as u8;
        }
        let mut src = Src::new(&bytes);
        let s = gen_scenario(&mut src, false);
        let order = src.perm(s.colls.len());
        let h = match gathered(&s, &order) {
            Ok((_, text)) => {
                let mut h: u64 = 0xcbf29ce484222325;
                for b in text.bytes() {
                    h ^= b as u64;
                    h = h.wrapping_mul(0x100000001b3);
                }
                h
            }
            Err(_) => 0,
        };
        out.push((bytes, h));
    }
    out
}

pub fn cross_process(tier: Tier, seed: u64, stats: &mut Stats) -> Result<(), (String, String, Vec<u8>)> {
    let n = match tier {
        Tier::Quick => 300,
        Tier::Thorough => 5000,
    };
    let procs = match tier {
        Tier::Quick => 2,
        Tier::Thorough => 4,
    };
    let mine = digest_batch(seed, n);
    let exe = match std::env::current_exe() {
        Ok(e) => e,
        Err(_) => return Ok(()),
    };
    let mut compared = 0u64;
    for _ in 0..procs {
        let out = std::process::Command::new(&exe).arg("c07-digest").arg(seed.to_string()).arg(n.to_string()).output();
        let Ok(out) = out else { continue };
        let text = String::from_utf8_lossy(&out.stdout);
        let theirs: Vec<u64> = text.lines().filter_map(|l| l.trim().parse::<u64>().ok()).collect();
        if theirs.len() != mine.len() {
            continue;
        }
        for (i, ((bytes, h), t)) in mine.iter().zip(&theirs).enumerate() {
            compared += 1;
            if h != t {
                return Err((
                    "gather-differs-across-processes".into(),
                    format!("scenario #{} of the cross-process batch encodes differently in another process (hash seeds differ)", i),
                    bytes.clone(),
                ));
            }
        }
    }
    stats.extra.push(("cross_process_comparisons".into(), serde_json::json!(compared)));
    Ok(())
}
