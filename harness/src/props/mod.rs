pub mod c05;

use crate::engine::Property;

pub fn all() -> Vec<Box<dyn Property>> {
    vec![Box::new(c05::C05)]
}

pub fn by_id(id: &str) -> Option<Box<dyn Property>> {
    all().into_iter().find(|p| p.id() == id)
}
