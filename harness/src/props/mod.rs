pub mod c04;
pub mod c05;
pub mod c08;
pub mod c09;

use crate::engine::Property;

pub fn all() -> Vec<Box<dyn Property>> {
    vec![Box::new(c04::C04), Box::new(c05::C05), Box::new(c08::C08), Box::new(c09::C09)]
}

pub fn by_id(id: &str) -> Option<Box<dyn Property>> {
    all().into_iter().find(|p| p.id() == id)
}
