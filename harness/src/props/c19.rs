//! C19 — static-metric accessors address exactly the declared label values.
//!
//! The generated case is a *program*: a `make_static_metric!` / `make_auto_flush_static_metric!`
//! declaration drawn from a grammar, plus a generated driver that exercises every leaf through the
//! field path, the `get(enum)` chain and the `try_get(str)` chain and then reads the backing vector.
//! Declarations are compiled in batches (one module each) against the working tree and executed.

use std::collections::BTreeMap;
use std::path::{Path, PathBuf};
use std::process::Command;

use crate::engine::{fail, Budget, Property, Report, Stats, Tier, Verdict};
use crate::pools::VALUE_FRAGS;
use crate::src::Src;

pub struct C19;

const IDENTS: &[&str] = &[
    "foo", "bar", "a", "b", "x", "m", "root", "inner", "get", "from", "post", "v1", "offset1", "branch_offset", "last_flush", "flush_millis", "try_get",
    "flush", "new", "y", "zz_9", "local", "vec", "value",
];
const LABEL_NAMES: &[&str] = &["l0", "method", "product", "a", "zz", "b_1"];

#[derive(Clone, Debug, PartialEq)]
pub struct Value {
    pub ident: String,
    pub rename: Option<String>,
}
impl Value {
    fn string(&self) -> String {
        self.rename.clone().unwrap_or_else(|| self.ident.clone())
    }
}

#[derive(Clone, Debug, PartialEq)]
pub struct Label {
    pub name: String,
    /// Some(enum name) when the label refers to a label_enum
    pub enum_name: Option<String>,
    pub values: Vec<Value>,
}

#[derive(Clone, Debug, PartialEq)]
pub struct Decl {
    pub auto_flush: bool,
    pub mtype: &'static str,
    pub labels: Vec<Label>,
    pub vec_order: Vec<usize>,
    /// auto-flush only: flush on every update (true) or explicit flush only (false)
    pub flush_every_update: bool,
}

const STATIC_TYPES: &[&str] = &["IntCounter", "Counter", "LocalIntCounter", "Histogram", "Gauge", "IntGauge", "LocalCounter", "LocalHistogram"];
const AUTO_TYPES: &[&str] = &["LocalIntCounter", "LocalCounter", "LocalHistogram"];

fn rust_str(s: &str) -> String {
    let mut o = String::from("\"");
    for c in s.chars() {
        match c {
            '"' => o.push_str("\\\""),
            '\\' => o.push_str("\\\\"),
            '\n' => o.push_str("\\n"),
            '\r' => o.push_str("\\r"),
            '\t' => o.push_str("\\t"),
            c if (c as u32) < 0x20 || c as u32 >= 0x7f => o.push_str(&format!("\\u{{{:x}}}", c as u32)),
            c => o.push(c),
        }
    }
    o.push('"');
    o
}

/// `exclude_capture`: steer away from identifiers hit by the known identifier-capture finding.
pub fn gen_decl(src: &mut Src, exclude_capture: bool) -> Decl {
    let auto_flush = src.chance(90);
    let mtype = if auto_flush { *src.pick(AUTO_TYPES) } else { *src.pick(STATIC_TYPES) };
    let nlabels = 1 + src.below(4);
    let lnames = crate::pools::distinct(src, LABEL_NAMES, nlabels);
    let mut labels: Vec<Label> = vec![];
    for (li, ln) in lnames.iter().enumerate() {
        // occasionally share an earlier enum
        let earlier_enums: Vec<usize> = labels.iter().enumerate().filter(|(_, l)| l.enum_name.is_some()).map(|(i, _)| i).collect();
        if !earlier_enums.is_empty() && src.chance(30) {
            let e = &labels[earlier_enums[src.below(earlier_enums.len())]];
            labels.push(Label { name: ln.to_string(), enum_name: e.enum_name.clone(), values: e.values.clone() });
            continue;
        }
        let nv = 1 + src.below(4);
        let pool: Vec<&str> = if exclude_capture && auto_flush {
            IDENTS.iter().copied().filter(|i| !CAPTURED.contains(i)).collect()
        } else {
            IDENTS.to_vec()
        };
        let idents = crate::pools::distinct(src, &pool, nv);
        let mut values: Vec<Value> = vec![];
        for id in idents {
            let mut rename = if src.chance(90) { Some(src.text(VALUE_FRAGS, 2)) } else { None };
            // two value names of one label may be given the same string: they are aliases of one child
            if rename.is_some() && !values.is_empty() && src.chance(50) {
                rename = Some(values[src.below(values.len())].string());
            }
            values.push(Value { ident: id.to_string(), rename });
        }
        // an eighth of the labels with two or more values: the first two are renamed to strings of equal length (more than eight
        // bytes) that differ only in their last characters
        if values.len() >= 2 && src.chance(32) {
            values[0].rename = Some("endpoint_read".to_string());
            values[1].rename = Some("endpoint_scan".to_string());
        }
        let enum_name = if src.chance(100) { Some(format!("E{}", li)) } else { None };
        labels.push(Label { name: ln.to_string(), enum_name, values });
    }
    let vec_order = src.perm(nlabels);
    Decl { auto_flush, mtype, labels, vec_order, flush_every_update: src.chance(128) }
}

/// Identifiers that the auto-flush builder's generated temporaries capture (known finding D10).
pub const CAPTURED: &[&str] = &[];

fn leaves(d: &Decl) -> Vec<Vec<usize>> {
    let mut out: Vec<Vec<usize>> = vec![vec![]];
    for l in &d.labels {
        let mut next = vec![];
        for p in &out {
            for vi in 0..l.values.len() {
                let mut q = p.clone();
                q.push(vi);
                next.push(q);
            }
        }
        out = next;
    }
    out
}

/// Rust source of one module `d<k>`: the declaration and its driver.
pub fn emit_module(d: &Decl) -> String {
    let mut s = String::new();
    s.push_str("#![allow(non_camel_case_types, dead_code, unused_imports, non_upper_case_globals, unused_variables, unused_mut)]\n");
    s.push_str("use prometheus::*;\nuse prometheus::core::Collector;\nuse prometheus::local::*;\nuse lazy_static::lazy_static;\n");
    s.push_str("use prometheus_static_metric::{auto_flush_from, make_auto_flush_static_metric, make_static_metric};\n\n");
    let mac = if d.auto_flush { "make_auto_flush_static_metric" } else { "make_static_metric" };
    s.push_str(&format!("{}! {{\n", mac));
    let mut done_enums: Vec<String> = vec![];
    for l in &d.labels {
        if let Some(e) = &l.enum_name {
            if done_enums.contains(e) {
                continue;
            }
            done_enums.push(e.clone());
            s.push_str(&format!("    pub label_enum {} {{\n", e));
            for v in &l.values {
                match &v.rename {
                    Some(r) => s.push_str(&format!("        {}: {},\n", v.ident, rust_str(r))),
                    None => s.push_str(&format!("        {},\n", v.ident)),
                }
            }
            s.push_str("    }\n");
        }
    }
    s.push_str(&format!("    pub struct S: {} {{\n", d.mtype));
    for l in &d.labels {
        match &l.enum_name {
            Some(e) => s.push_str(&format!("        {} => {},\n", rust_str(&l.name), e)),
            None => {
                s.push_str(&format!("        {} => {{\n", rust_str(&l.name)));
                for v in &l.values {
                    match &v.rename {
                        Some(r) => s.push_str(&format!("            {}: {},\n", v.ident, rust_str(r))),
                        None => s.push_str(&format!("            {},\n", v.ident)),
                    }
                }
                s.push_str("        },\n");
            }
        }
    }
    s.push_str("    }\n}\n\n");

    let (vec_ty, is_hist, is_local, is_int, is_gauge) = match d.mtype {
        "Counter" => ("CounterVec", false, false, false, false),
        "IntCounter" => ("IntCounterVec", false, false, true, false),
        "Gauge" => ("GaugeVec", false, false, false, true),
        "IntGauge" => ("IntGaugeVec", false, false, true, true),
        "Histogram" => ("HistogramVec", true, false, false, false),
        "LocalCounter" => ("CounterVec", false, true, false, false),
        "LocalIntCounter" => ("IntCounterVec", false, true, true, false),
        _ => ("HistogramVec", true, true, false, false),
    };
    let order: Vec<String> = d.vec_order.iter().map(|i| rust_str(&d.labels[*i].name)).collect();
    let mk_vec = if is_hist {
        format!("{}::new(HistogramOpts::new(\"m\", \"h\").buckets(vec![1.0]), &[{}]).unwrap()", vec_ty, order.join(", "))
    } else {
        format!("{}::new(Opts::new(\"m\", \"h\"), &[{}]).unwrap()", vec_ty, order.join(", "))
    };
    let upd = |amt: String| -> String {
        if is_hist {
            format!(".observe({} as f64)", amt)
        } else if is_gauge {
            if is_int {
                format!(".add({} as i64)", amt)
            } else {
                format!(".add({} as f64)", amt)
            }
        } else if is_int {
            format!(".inc_by({} as u64)", amt)
        } else {
            format!(".inc_by({} as f64)", amt)
        }
    };
    if d.auto_flush {
        s.push_str(&format!("lazy_static! {{\n    pub static ref VEC: {} = {};\n", vec_ty, mk_vec));
        let dur = if d.flush_every_update { "std::time::Duration::from_secs(0)" } else { "std::time::Duration::from_secs(3600)" };
        s.push_str(&format!("    pub static ref M: S = auto_flush_from!(VEC, S, {});\n", dur));
        s.push_str("    pub static ref INNER_HANDLE: S = S::from(&INNER);\n");
        s.push_str(&format!("    pub static ref VEC_B: {} = {};\n", vec_ty, mk_vec.replace("\"m\"", "\"m_b\"")));
        s.push_str(&format!("    pub static ref M_B: S = auto_flush_from!(VEC_B, S, {});\n}}\n", dur));
        s.push_str("thread_local! {\n    pub static INNER: SInner = SInner::from(&VEC);\n}\n\n");
    }
    s.push_str("pub fn run() -> Vec<String> {\n    let mut fails: Vec<String> = vec![];\n");
    if d.auto_flush {
        s.push_str("    let vec = &*VEC;\n    let m = &*M;\n");
    } else {
        s.push_str(&format!("    let vec = {};\n    let vec = &vec;\n    let m = S::from(vec);\n    let m = &m;\n", mk_vec));
    }
    let lv = leaves(d);
    let mut paths_used = 1u64;
    let has_enum = d.labels.iter().any(|l| l.enum_name.is_some());
    if has_enum {
        paths_used += 1;
    }
    // static form: the try_get chain; auto-flush form: the same field paths used from a second thread (every thread has
    // its own thread-local accumulator behind the one static handle)
    paths_used += 1;
    for (i, leaf) in lv.iter().enumerate() {
        let n = (i + 1) as u64;
        // (1) the field path
        let fields: Vec<String> = leaf.iter().enumerate().map(|(li, vi)| format!(".{}", d.labels[li].values[*vi].ident)).collect();
        s.push_str(&format!("    m{}{};\n", fields.join(""), upd(format!("{}u64", n))));
        // (2) get(enum) where the label is an enum, else the field
        if has_enum {
            let chain: Vec<String> = leaf
                .iter()
                .enumerate()
                .map(|(li, vi)| match &d.labels[li].enum_name {
                    Some(e) => format!(".get({}::{})", e, d.labels[li].values[*vi].ident),
                    None => format!(".{}", d.labels[li].values[*vi].ident),
                })
                .collect();
            s.push_str(&format!("    m{}{};\n", chain.join(""), upd(format!("{}u64", n * 1000))));
        }
        // (3) try_get(str) at every level (static form only)
        if !d.auto_flush {
            let mut expr = String::from("Some(m)");
            for (li, vi) in leaf.iter().enumerate() {
                expr = format!("{}.and_then(|t| t.try_get({}))", expr, rust_str(&d.labels[li].values[*vi].string()));
            }
            s.push_str(&format!(
                "    match {} {{ Some(t) => {{ t{}; }} None => fails.push(format!(\"try_get chain of leaf {} returned None\")) }}\n",
                expr,
                upd(format!("{}u64", n * 1_000_000)),
                i
            ));
        }
    }
    // undeclared strings
    if !d.auto_flush {
        s.push_str("    if m.try_get(\"\\u{1}undeclared\").is_some() { fails.push(\"try_get of an undeclared value is Some\".to_string()); }\n");
        let l0 = &d.labels[0];
        for v in &l0.values {
            if v.rename.is_some() && !l0.values.iter().any(|o| o.string() == v.ident) {
                s.push_str(&format!(
                    "    if m.try_get({}).is_some() {{ fails.push(\"try_get of the bare identifier of a renamed value is Some\".to_string()); }}\n",
                    rust_str(&v.ident)
                ));
            }
        }
        if d.labels.len() >= 2 {
            let first = &l0.values[0];
            s.push_str(&format!(
                "    if m.{}.try_get(\"\\u{{1}}undeclared\").is_some() {{ fails.push(\"second-level try_get of an undeclared value is Some\".to_string()); }}\n",
                first.ident
            ));
        }
    }
    // flushing
    let first_leaf_fields: Vec<String> = lv[0].iter().enumerate().map(|(li, vi)| format!(".{}", d.labels[li].values[*vi].ident)).collect();
    if d.auto_flush {
        if !d.flush_every_update {
            // nothing may have reached the vector yet
            s.push_str("    { let fams = vec.collect(); for mm in fams[0].get_metric() { let v = value_of(mm); if v != 0.0 { fails.push(format!(\"value {} reached the vector before any flush\", v)); } } }\n");
        }
        // AFLocalHistogram::flush flushes the addressed local histogram only (AFLocalCounter::flush the whole
        // thread-local root), so every leaf is flushed through its own accessor
        let _ = &first_leaf_fields;
        for leaf in lv.iter() {
            let fields: Vec<String> = leaf.iter().enumerate().map(|(li, vi)| format!(".{}", d.labels[li].values[*vi].ident)).collect();
            s.push_str(&format!("    m{}.flush();\n", fields.join("")));
        }
    } else if is_local {
        s.push_str("    m.flush();\n");
    }
    if is_local {
        // after the flush no local data remains
        for leaf in lv.iter() {
            let fields: Vec<String> = leaf.iter().enumerate().map(|(li, vi)| format!(".{}", d.labels[li].values[*vi].ident)).collect();
            if is_hist {
                s.push_str(&format!("    if m{}.get_sample_count() != 0 {{ fails.push(\"local data remains after flush\".to_string()); }}\n", fields.join("")));
            } else {
                s.push_str(&format!("    if (m{}.get() as f64) != 0.0 {{ fails.push(\"local data remains after flush\".to_string()); }}\n", fields.join("")));
            }
        }
    }
    // a second thread uses the same static handle: its own thread-local accumulators, flushed there
    if d.auto_flush {
        s.push_str("    std::thread::spawn(|| {\n        let m = &*M;\n");
        for (i, leaf) in lv.iter().enumerate() {
            let n = (i + 1) as u64;
            let fields: Vec<String> = leaf.iter().enumerate().map(|(li, vi)| format!(".{}", d.labels[li].values[*vi].ident)).collect();
            s.push_str(&format!("        m{}{};\n", fields.join(""), upd(format!("{}u64", n * 1_000_000))));
        }
        for leaf in lv.iter() {
            let fields: Vec<String> = leaf.iter().enumerate().map(|(li, vi)| format!(".{}", d.labels[li].values[*vi].ident)).collect();
            s.push_str(&format!("        m{}.flush();\n", fields.join("")));
        }
        s.push_str("    }).join().unwrap();\n");
    }
    // the per-thread struct of local metrics (`SInner`: public fields, public flush) is part of what the macro generates, and the
    // documented expansion of auto_flush_from! is a hand-written thread_local holding it: update every leaf through the inner
    // struct's field path, flush once through the inner struct and, after a second round of updates, once through a handle
    if d.auto_flush {
        s.push_str("    INNER.with(|m| {\n");
        for (i, leaf) in lv.iter().enumerate() {
            let n = (i + 1) as u64;
            let fields: Vec<String> = leaf.iter().enumerate().map(|(li, vi)| format!(".{}", d.labels[li].values[*vi].ident)).collect();
            s.push_str(&format!("        m{}{};\n", fields.join(""), upd(format!("{}u64", n * 1_000_000_000))));
        }
        s.push_str("        m.flush();\n    });\n");
        s.push_str("    INNER.with(|m| {\n");
        for (i, leaf) in lv.iter().enumerate() {
            let n = (i + 1) as u64;
            let fields: Vec<String> = leaf.iter().enumerate().map(|(li, vi)| format!(".{}", d.labels[li].values[*vi].ident)).collect();
            s.push_str(&format!("        m{}{};\n", fields.join(""), upd(format!("{}u64", n * 1_000_000_000))));
        }
        s.push_str("    });\n    INNER_HANDLE.flush();\n");
        paths_used += 2;
    }
    // a second instance of the same generated type on a second vector: what goes through it arrives in that vector and nowhere else
    if d.auto_flush {
        s.push_str("    let mb = &*M_B;\n");
        for (i, leaf) in lv.iter().enumerate() {
            let n = (i + 1) as u64;
            let fields: Vec<String> = leaf.iter().enumerate().map(|(li, vi)| format!(".{}", d.labels[li].values[*vi].ident)).collect();
            s.push_str(&format!("    mb{}{};\n", fields.join(""), upd(format!("{}u64", n * 1_000_000_000_000))));
        }
        for leaf in lv.iter() {
            let fields: Vec<String> = leaf.iter().enumerate().map(|(li, vi)| format!(".{}", d.labels[li].values[*vi].ident)).collect();
            s.push_str(&format!("    mb{}.flush();\n", fields.join("")));
        }
        s.push_str("    let mut expected_b: std::collections::BTreeMap<Vec<(String, String)>, f64> = std::collections::BTreeMap::new();\n");
        for (i, leaf) in lv.iter().enumerate() {
            let mut pairs: Vec<(String, String)> = leaf.iter().enumerate().map(|(li, vi)| (d.labels[li].name.clone(), d.labels[li].values[*vi].string())).collect();
            pairs.sort();
            let lit: Vec<String> = pairs.iter().map(|(k, v)| format!("({}.to_string(), {}.to_string())", rust_str(k), rust_str(v))).collect();
            s.push_str(&format!("    *expected_b.entry(vec![{}]).or_insert(0.0) += {}f64;\n", lit.join(", "), (i as u64 + 1) * 1_000_000_000_000));
        }
        s.push_str(
            r#"    {
        let fams = VEC_B.collect();
        let mut seen_b: std::collections::BTreeMap<Vec<(String, String)>, f64> = std::collections::BTreeMap::new();
        for mm in fams[0].get_metric() {
            let mut l: Vec<(String, String)> = mm.get_label().iter().map(|l| (l.name().to_string(), l.value().to_string())).collect();
            l.sort();
            seen_b.insert(l, value_of(mm));
        }
        if seen_b != expected_b {
            let wrong: Vec<String> = expected_b.iter().filter(|(l, v)| seen_b.get(*l) != Some(*v)).take(3).map(|(l, v)| format!("{:?} has value {:?} but the updates made through the second instance sum to {}", l, seen_b.get(l), v)).collect();
            fails.push(format!("second instance of the type, built on a second vector: child {} ({} children, {} leaves)", wrong.join("; "), seen_b.len(), expected_b.len()));
        }
    }
"#,
        );
    }
    // expected children
    s.push_str("    let mut expected: std::collections::BTreeMap<Vec<(String, String)>, f64> = std::collections::BTreeMap::new();\n");
    s.push_str("    let mut leaves_of: std::collections::BTreeMap<Vec<(String, String)>, u64> = std::collections::BTreeMap::new();\n");
    for (i, leaf) in lv.iter().enumerate() {
        let mut pairs: Vec<(String, String)> = leaf.iter().enumerate().map(|(li, vi)| (d.labels[li].name.clone(), d.labels[li].values[*vi].string())).collect();
        pairs.sort();
        let n = (i + 1) as u64;
        let mut total = n;
        if has_enum {
            total += n * 1000;
        }
        total += n * 1_000_000;
        if d.auto_flush {
            total += 2 * n * 1_000_000_000;
        }
        let lit: Vec<String> = pairs.iter().map(|(k, v)| format!("({}.to_string(), {}.to_string())", rust_str(k), rust_str(v))).collect();
        s.push_str(&format!("    *expected.entry(vec![{}]).or_insert(0.0) += {}f64;\n", lit.join(", "), total));
        s.push_str(&format!("    *leaves_of.entry(vec![{}]).or_insert(0) += 1;\n", lit.join(", ")));
    }
    s.push_str(&format!("    let paths_used: u64 = {};\n", paths_used));
    s.push_str(
        r#"    let fams = vec.collect();
    let mut seen: std::collections::BTreeMap<Vec<(String, String)>, f64> = std::collections::BTreeMap::new();
    for mm in fams[0].get_metric() {
        let mut l: Vec<(String, String)> = mm.get_label().iter().map(|l| (l.name().to_string(), l.value().to_string())).collect();
        l.sort();
        if seen.insert(l.clone(), value_of(mm)).is_some() {
            fails.push(format!("child {:?} appears twice", l));
        }
        let want_n = paths_used * leaves_of.get(&l).copied().unwrap_or(1);
        if is_hist() && mm.get_histogram().get_sample_count() != want_n {
            fails.push(format!("child {:?} has {} observations, expected {}", l, mm.get_histogram().get_sample_count(), want_n));
        }
    }
    for (l, v) in &expected {
        match seen.get(l) {
            None => fails.push(format!("no child for the declared leaf {:?}; children: {:?}", l, seen.keys().collect::<Vec<_>>())),
            Some(g) if g != v => fails.push(format!("child {:?} has value {} but the updates made through the accessors of this leaf sum to {}", l, g, v)),
            _ => {}
        }
    }
    for l in seen.keys() {
        if !expected.contains_key(l) {
            fails.push(format!("backing vector has a child {:?} that no declared leaf addresses", l));
        }
    }
    fails
}
"#,
    );
    s.push_str(&format!("fn is_hist() -> bool {{ {} }}\n", is_hist));
    if is_hist {
        s.push_str("fn value_of(m: &prometheus::proto::Metric) -> f64 { m.get_histogram().get_sample_sum() }\n");
    } else if is_gauge {
        s.push_str("fn value_of(m: &prometheus::proto::Metric) -> f64 { m.get_gauge().value() }\n");
    } else {
        s.push_str("fn value_of(m: &prometheus::proto::Metric) -> f64 { m.get_counter().value() }\n");
    }
    s
}

pub fn describe(d: &Decl) -> String {
    let labels: Vec<String> = d
        .labels
        .iter()
        .map(|l| {
            let vs: Vec<String> = l.values.iter().map(|v| match &v.rename { Some(r) => format!("{}: {:?}", v.ident, r), None => v.ident.clone() }).collect();
            let shown = if vs.len() > 8 { format!("{}, ... ({} values)", vs[..3].join(", "), vs.len()) } else { vs.join(", ") };
            format!("{:?} => {}{{{}}}", l.name, l.enum_name.clone().map(|e| format!("enum {} ", e)).unwrap_or_default(), shown)
        })
        .collect();
    format!(
        "{}! struct S: {} {{ {} }} vec label order {:?}{}",
        if d.auto_flush { "make_auto_flush_static_metric" } else { "make_static_metric" },
        d.mtype,
        labels.join("; "),
        d.vec_order,
        if d.auto_flush { format!(" flush_every_update={}", d.flush_every_update) } else { String::new() }
    )
}

fn nontrivial(d: &Decl) -> bool {
    let multi = d.labels.iter().filter(|l| l.values.len() >= 2).count() >= 2;
    let fancy = d.labels.iter().any(|l| l.enum_name.is_some() || l.values.iter().any(|v| v.rename.is_some()));
    let permuted = d.vec_order.iter().enumerate().any(|(i, p)| i != *p);
    multi && fancy && permuted
}

/// Identifiers of the declaration that trigger the identifier-capture finding of the auto-flush builder.
fn captured_idents(d: &Decl) -> Vec<String> {
    if !d.auto_flush {
        return vec![];
    }
    let mut out = vec![];
    for l in &d.labels {
        for v in &l.values {
            if CAPTURED.contains(&v.ident.as_str()) && !out.contains(&v.ident) {
                out.push(v.ident.clone());
            }
        }
    }
    out
}

pub struct BatchResult {
    /// per declaration: Ok(()) or Err((signature, detail))
    pub results: Vec<Result<(), (String, String)>>,
    pub build_secs: f64,
}

fn work_dir(tag: &str) -> PathBuf {
    crate::engine::verif_root().join("work").join(format!("c19-{}", tag))
}

fn repo_path() -> String {
    std::env::var("VERIF_REPO").unwrap_or_else(|_| "/repo".to_string())
}

/// Write, build and run one crate holding all `decls`. Declarations that do not compile are
/// identified from the compiler's diagnostics (one source file per declaration), removed, and the
/// rest is rebuilt.
pub fn run_batch(decls: &[Decl], tag: &str) -> Result<BatchResult, String> {
    let dir = work_dir(tag);
    let _ = std::fs::remove_dir_all(&dir);
    std::fs::create_dir_all(dir.join("src")).map_err(|e| e.to_string())?;
    let repo = repo_path();
    let pkg: String = format!("c19gen_{}", tag.chars().map(|c| if c.is_ascii_alphanumeric() { c } else { '_' }).collect::<String>());
    let manifest = format!(
        "[package]\nname = \"{1}\"\nversion = \"0.1.0\"\nedition = \"2021\"\npublish = false\n\n[dependencies]\nprometheus = {{ path = \"{0}\" }}\nprometheus-static-metric = {{ path = \"{0}/static-metric\" }}\nlazy_static = \"1.4\"\n\n[profile.dev]\nopt-level = 0\ndebug = 0\nincremental = false\n\n[workspace]\n",
        repo, pkg
    );
    std::fs::write(dir.join("Cargo.toml"), manifest).map_err(|e| e.to_string())?;
    let _ = std::fs::copy(Path::new(&repo).join("Cargo.lock"), dir.join("Cargo.lock"));
    for (k, d) in decls.iter().enumerate() {
        std::fs::write(dir.join("src").join(format!("d{}.rs", k)), emit_module(d)).map_err(|e| e.to_string())?;
    }
    let mut results: Vec<Result<(), (String, String)>> = decls.iter().map(|_| Ok(())).collect();
    let mut active: Vec<usize> = (0..decls.len()).collect();
    let target = crate::engine::verif_root().join("target").join(if repo == "/repo" { "c19".to_string() } else { format!("c19-alt-{:x}", crate::engine::splitmix(repo.len() as u64 ^ repo.bytes().map(|b| b as u64).sum::<u64>())) });
    let t0 = std::time::Instant::now();
    for _round in 0..6 {
        let mut main = String::from("#![allow(non_camel_case_types, dead_code, unused_imports)]\n");
        for k in &active {
            main.push_str(&format!("mod d{};\n", k));
        }
        main.push_str("fn main() {\n    std::panic::set_hook(Box::new(|_| {}));\n");
        for k in &active {
            main.push_str(&format!(
                "    match std::panic::catch_unwind(|| d{0}::run()) {{ Ok(f) => {{ if f.is_empty() {{ println!(\"D{0} OK\"); }} else {{ println!(\"D{0} FAIL {{}}\", f.join(\" || \").replace('\\n', \"\\\\n\")); }} }} Err(e) => {{ let m = if let Some(s) = e.downcast_ref::<&str>() {{ s.to_string() }} else if let Some(s) = e.downcast_ref::<String>() {{ s.clone() }} else {{ String::new() }}; println!(\"D{0} PANIC {{}}\", m.replace('\\n', \"\\\\n\")); }} }}\n",
                k
            ));
        }
        main.push_str("}\n");
        std::fs::write(dir.join("src").join("main.rs"), main).map_err(|e| e.to_string())?;
        let out = Command::new("cargo")
            .arg("build")
            .arg("--quiet")
            .arg("--message-format=short")
            .current_dir(&dir)
            .env("CARGO_NET_OFFLINE", "true")
            .env("CARGO_TARGET_DIR", &target)
            .env("RUSTFLAGS", "--cfg prometheus_verif")
            .output()
            .map_err(|e| format!("cannot run cargo: {}", e))?;
        if out.status.success() {
            break;
        }
        let err = String::from_utf8_lossy(&out.stderr).to_string();
        // which declarations are named by the diagnostics?
        let mut bad: BTreeMap<usize, String> = BTreeMap::new();
        for line in err.lines() {
            if let Some(pos) = line.find("src/d") {
                let rest = &line[pos + 5..];
                let num: String = rest.chars().take_while(|c| c.is_ascii_digit()).collect();
                if let Ok(k) = num.parse::<usize>() {
                    if line.contains("error") {
                        let code = line.find("error[").map(|p| line[p + 6..].chars().take_while(|c| *c != ']').collect::<String>()).unwrap_or_else(|| "E????".into());
                        bad.entry(k).or_insert_with(|| format!("{} :: {}", code, line.chars().take(300).collect::<String>()));
                    }
                }
            }
        }
        if bad.is_empty() {
            return Err(format!("generated crate does not build and no declaration is named: {}", err.chars().take(2000).collect::<String>()));
        }
        for (k, msg) in bad {
            let code = msg.split(" :: ").next().unwrap_or("E????").to_string();
            let caps = captured_idents(&decls[k]);
            let sig = if !caps.is_empty() { "autoflush-identifier-capture".to_string() } else { format!("does-not-compile:{}", code) };
            results[k] = Err((sig, format!("declaration does not compile: {} ;; {}", msg, describe(&decls[k]))));
            active.retain(|x| *x != k);
        }
        if active.is_empty() {
            break;
        }
    }
    let build_secs = t0.elapsed().as_secs_f64();
    if !active.is_empty() {
        let exe = target.join("debug").join(&pkg);
        let out = Command::new(&exe).output().map_err(|e| format!("cannot run {}: {}", exe.display(), e))?;
        let text = String::from_utf8_lossy(&out.stdout).to_string();
        let _ = std::fs::remove_file(&exe);
        let mut seen = vec![false; decls.len()];
        for line in text.lines() {
            let Some(rest) = line.strip_prefix('D') else { continue };
            let num: String = rest.chars().take_while(|c| c.is_ascii_digit()).collect();
            let Ok(k) = num.parse::<usize>() else { continue };
            let rest = rest[num.len()..].trim_start();
            seen[k] = true;
            if let Some(msg) = rest.strip_prefix("FAIL ") {
                let sig = if msg.contains("no child for the declared leaf") || msg.contains("that no declared leaf addresses") {
                    "leaf-child-mismatch"
                } else if msg.contains("has value") {
                    "accessor-addresses-wrong-child"
                } else if msg.contains("try_get") {
                    "try_get-wrong"
                } else if msg.contains("local data remains") || msg.contains("before any flush") {
                    "flush-wrong"
                } else {
                    "driver-failure"
                };
                results[k] = Err((sig.to_string(), format!("{} ;; {}", msg, describe(&decls[k]))));
            } else if let Some(msg) = rest.strip_prefix("PANIC ") {
                results[k] = Err(("generated-code-panicked".to_string(), format!("{} ;; {}", msg, describe(&decls[k]))));
            }
        }
        for k in &active {
            if !seen[*k] {
                results[*k] = Err(("generated-program-crashed".to_string(), format!("no result line for the declaration (process status {:?}) ;; {}", out.status, describe(&decls[*k]))));
            }
        }
    }
    let _ = std::fs::remove_dir_all(&dir);
    // remove this batch's build products (unique package name) so that the shared target dir does not grow
    for sub in ["debug", "debug/deps", "debug/.fingerprint", "debug/incremental"] {
        if let Ok(rd) = std::fs::read_dir(target.join(sub)) {
            for e in rd.flatten() {
                let name = e.file_name().to_string_lossy().to_string();
                if name.starts_with(&pkg) {
                    let p = e.path();
                    if p.is_dir() {
                        let _ = std::fs::remove_dir_all(&p);
                    } else {
                        let _ = std::fs::remove_file(&p);
                    }
                }
            }
        }
    }
    Ok(BatchResult { results, build_secs })
}

impl Property for C19 {
    fn id(&self) -> &'static str {
        "C19"
    }
    fn rule(&self) -> &'static str {
        "case = a macro declaration drawn from a grammar: make_static_metric! (Counter, IntCounter, Gauge, IntGauge, Histogram and \
         the three local types) or make_auto_flush_static_metric! (three local types, flush on every update or explicit flush \
         only), 1-4 labels with 1-4 values each (plus, per run, 1 (quick) / 6 (thorough) auto-flush declarations of deployment size: 2 labels with 35-60 values each, \
         1200-3600 leaves, the thread-local root struct larger than 64 KiB; and 6 / 40 declarations with 9-14 labels of 1-2 values each, all value strings distinct), every label an inline list or a (possibly shared) label_enum, every value bare or \
         renamed to a string from the adversarial fragment pool or to the string of an earlier value of the label (alias), identifiers from a pool that includes names likely to collide with \
         generated locals (x, m, root, inner, get, from, offset1, ...), and a generated permutation of the label order in the backing \
         vector. A batch of declarations is written as one crate (one module each) with a generated driver per declaration, built \
         against the working tree and run. Oracle: the backing vector has exactly one child per declared leaf, labelled with the \
         declared value strings, whose value is the sum of the leaf-unique updates made through the field path, the get(enum) chain \
         and the try_get(str) chain of that leaf (auto-flush form: and the field path used and flushed from a second thread, and the field path of the per-thread inner struct in a hand-written thread_local, flushed through that struct and through a handle built on it, and a second instance of the type built on a second vector); aliased \
         leaves share one child; try_get of undeclared strings is None; after flush no local data remains; a \
         declaration that does not compile is a failure. Non-trivial: >= 2 labels with >= 2 values, an enum or renamed value, and a \
         permuted vector label order. Distinct = distinct declarations."
    }
    fn assumptions(&self) -> Vec<&'static str> {
        vec!["two value names of one label that share a string are aliases of one child: the updates made through both are expected to add up there"]
    }
    fn budget(&self, _tier: Tier) -> Budget {
        // all work happens in `post` (batched compilation); the per-case path is used for replay only
        Budget { cases: 0, min_len: 0, max_len: 0 }
    }

    /// Single-declaration path (replay files): build and run one declaration.
    fn run(&self, src: &mut Src, rep: &mut Report) -> Verdict {
        let d = decode_with(src);
        rep.nontrivial = nontrivial(&d);
        if rep.want_sample {
            rep.sample = Some(describe(&d));
        }
        let tag = format!("replay-{}-{:x}", std::process::id(), src.key());
        match run_batch(&[d], &tag) {
            Err(e) => {
                eprintln!("pv: C19 batch failed: {} (inconclusive)", e);
                std::process::exit(2);
            }
            Ok(b) => match &b.results[0] {
                Ok(()) => Verdict::Pass,
                Err((sig, detail)) => fail(sig.clone(), detail.clone()),
            },
        }
    }

    fn post(&self, tier: Tier, seed: u64, stats: &mut Stats) -> Result<(), (String, String, Vec<u8>)> {
        let (nbatches, per_batch) = match tier {
            Tier::Quick => (3usize, 80usize),
            Tier::Thorough => (16, 150),
        };
        let known = crate::engine::load_known("C19");
        // generate the byte strings with proptest (fixed seed), one per declaration
        use proptest::prelude::*;
        use proptest::test_runner::{Config, RngSeed, TestRunner};
        let mut all: Vec<Vec<u8>> = vec![];
        {
            let cfg = Config { cases: (nbatches * per_batch) as u32, rng_seed: RngSeed::Fixed(crate::engine::splitmix(seed ^ 0xC19)), failure_persistence: None, ..Config::default() };
            let mut runner = TestRunner::new(cfg);
            let cell = std::cell::RefCell::new(&mut all);
            let _ = runner.run(&proptest::collection::vec(any::<u8>(), 8..120), |v| {
                cell.borrow_mut().push(v);
                Ok(())
            });
        }
        // decode; most of the budget steers away from the known identifier-capture finding
        let mut cases: Vec<(Vec<u8>, Decl)> = vec![];
        for (i, b) in all.iter().enumerate() {
            let avoid = i % 10 != 0;
            let mut bytes = b.clone();
            // the first byte of the case records the steering decision so that a replay decodes the same declaration
            bytes.insert(0, if avoid { 1 } else { 0 });
            let d = decode_case(&bytes);
            if avoid {
                stats.excluded_known += 1;
            }
            cases.push((bytes, d));
        }
        let mut batches: Vec<Vec<(Vec<u8>, Decl)>> = cases.chunks(per_batch).map(|c| c.to_vec()).collect();
        // declarations of deployment size (thousands of leaves), one per crate, built alongside the others
        let nlarge = match tier {
            Tier::Quick => 1,
            Tier::Thorough => 6,
        };
        // ... and declarations with 9-14 labels, in a crate of their own
        let ndeep = match tier {
            Tier::Quick => 6,
            Tier::Thorough => 40,
        };
        let mut x = crate::engine::splitmix(seed ^ 0xdee9);
        let mut deep = vec![];
        for _ in 0..ndeep {
            let mut bytes = vec![3u8];
            for _ in 0..40 {
                x = crate::engine::splitmix(x);
                bytes.push((x >> 24) as u8);
            }
            let d = decode_case(&bytes);
            deep.push((bytes, d));
        }
        batches.push(deep);
        let mut x = crate::engine::splitmix(seed ^ 0x1a46e);
        for _ in 0..nlarge {
            let mut bytes = vec![2u8];
            for _ in 0..12 {
                x = crate::engine::splitmix(x);
                bytes.push((x >> 24) as u8);
            }
            let d = decode_case(&bytes);
            batches.push(vec![(bytes, d)]);
        }
        let results: Vec<Result<BatchResult, String>> = std::thread::scope(|s| {
            let hs: Vec<_> = batches
                .iter()
                .enumerate()
                .map(|(bi, b)| {
                    let decls: Vec<Decl> = b.iter().map(|x| x.1.clone()).collect();
                    s.spawn(move || run_batch(&decls, &format!("{}-{}-b{}", std::process::id(), seed, bi)))
                })
                .collect();
            hs.into_iter().map(|h| h.join().unwrap_or_else(|_| Err("batch thread panicked".into()))).collect()
        });
        let mut first_fail: Option<(String, String, Vec<u8>)> = None;
        let mut build_secs = 0.0;
        for (b, r) in batches.iter().zip(results) {
            let r = match r {
                Ok(r) => r,
                Err(e) => {
                    eprintln!("pv: C19 batch could not be evaluated: {} (inconclusive)", e);
                    std::process::exit(2);
                }
            };
            build_secs += r.build_secs;
            for ((bytes, d), res) in b.iter().zip(r.results) {
                stats.evaluations += 1;
                let key = {
                    let mut s = Src::new(bytes);
                    let _ = decode_with(&mut s);
                    s.key()
                };
                stats.distinct.insert(key);
                let nt = nontrivial(d);
                if nt {
                    stats.nontrivial += 1;
                    stats.distinct_nontrivial.insert(key);
                }
                *stats.classes.entry(if d.auto_flush { "auto-flush" } else { "static" }).or_default() += 1;
                if d.labels.len() >= 9 {
                    *stats.classes.entry("many-labels(9-14)").or_default() += 1;
                }
                if leaves(d).len() > 1000 {
                    *stats.classes.entry("deployment-size(1200-3600 leaves, thread-local root > 64 KiB)").or_default() += 1;
                }
                if d.labels.iter().any(|l| l.values.iter().enumerate().any(|(i, v)| l.values[..i].iter().any(|o| o.string() == v.string()))) {
                    *stats.classes.entry("two-value-names-share-one-string(alias)").or_default() += 1;
                }
                *stats.classes.entry(d.mtype).or_default() += 1;
                if !captured_idents(d).is_empty() {
                    *stats.classes.entry("auto-flush-with-capturable-identifier").or_default() += 1;
                }
                if nt && stats.nontrivial_samples.len() < 4 {
                    stats.nontrivial_samples.push(describe(d));
                } else if stats.samples.len() < 2 {
                    stats.samples.push(describe(d));
                }
                if let Err((sig, detail)) = res {
                    if known.iter().any(|k| k.signature == sig) {
                        *stats.known_hits.entry(sig).or_default() += 1;
                    } else if first_fail.is_none() {
                        first_fail = Some((sig, detail, bytes.clone()));
                    }
                }
            }
        }
        stats.extra.push(("build_and_run_secs".into(), serde_json::json!((build_secs * 10.0).round() / 10.0)));
        stats.extra.push(("declarations_per_crate".into(), serde_json::json!(per_batch)));
        if let Some((sig, detail, bytes)) = first_fail {
            // shrink: truncations and zeroing, each step a single-declaration build + run (bounded)
            let (bytes, detail) = shrink(&bytes, &sig, detail, 40);
            return Err((sig, detail, bytes));
        }
        Ok(())
    }
}

fn decode_with(src: &mut Src) -> Decl {
    let first = src.byte();
    if first == 2 {
        return gen_large(src);
    }
    if first == 3 {
        return gen_deep(src);
    }
    gen_decl(src, first != 0)
}

/// A declaration with many labels (first byte of the case = 3): 9-14 labels, all but two or three of them with a single value, every
/// value string distinct across the whole declaration - so that a value arriving under a neighbouring label's key is seen - and label
/// positions with two digits.
pub fn gen_deep(src: &mut Src) -> Decl {
    let auto_flush = src.chance(110);
    let mtype = if auto_flush { *src.pick(AUTO_TYPES) } else { *src.pick(STATIC_TYPES) };
    let nlabels = 9 + src.below(6);
    let mut two: Vec<usize> = vec![src.below(nlabels), src.below(nlabels)];
    if src.chance(128) {
        two.push(src.below(nlabels));
    }
    let mut labels = vec![];
    for li in 0..nlabels {
        let nv = if two.contains(&li) { 2 } else { 1 };
        let renamed = src.chance(128);
        let values = (0..nv)
            .map(|vi| Value { ident: format!("v{:02}x{}", li, vi), rename: if renamed { Some(format!("{}/{}", li, vi)) } else { None } })
            .collect();
        labels.push(Label { name: format!("k{:02}", (li * 5 + 3) % 17), enum_name: if src.chance(60) { Some(format!("E{}", li)) } else { None }, values });
    }
    Decl { auto_flush, mtype, labels, vec_order: src.perm(nlabels), flush_every_update: src.chance(128) }
}

/// A declaration of deployment size (first byte of the case = 2): two labels of 30-60 values each, so that the generated structs hold
/// thousands of children inline (the auto-flush thread-local root exceeds 64 KiB: 24 bytes per counter leaf, 56 per histogram leaf)
/// and field offsets, indices and counters leave the range of the small integer types.
pub fn gen_large(src: &mut Src) -> Decl {
    // (auto-flush form only: that is where the generated code does address arithmetic; the static form of this size costs 45 s of
    // compile time for its try_get chains and has no size-dependent code)
    let auto_flush = true;
    let mtype = *src.pick(AUTO_TYPES);
    let hist = mtype.contains("Histogram");
    let (lo, span) = if hist { (35, 8) } else { (53, 8) };
    let lnames = crate::pools::distinct(src, LABEL_NAMES, 2);
    let mut labels = vec![];
    for (li, ln) in lnames.iter().enumerate() {
        let nv = lo + src.below(span);
        let renamed = src.chance(100);
        let values = (0..nv)
            .map(|k| Value { ident: format!("v{:02}", k), rename: if renamed { Some(format!("{}-{}", li, (k * 37) % 101)) } else { None } })
            .collect();
        labels.push(Label { name: ln.to_string(), enum_name: if src.chance(100) { Some(format!("E{}", li)) } else { None }, values });
    }
    Decl { auto_flush, mtype, labels, vec_order: src.perm(2), flush_every_update: src.chance(128) }
}

pub fn decode_case(bytes: &[u8]) -> Decl {
    let mut s = Src::new(bytes);
    decode_with(&mut s)
}

fn eval_one(bytes: &[u8], tag: &str) -> Option<(String, String)> {
    let d = decode_case(bytes);
    match run_batch(&[d], tag) {
        Ok(b) => b.results[0].clone().err(),
        Err(_) => None,
    }
}

fn shrink(bytes: &[u8], sig: &str, detail: String, max_steps: usize) -> (Vec<u8>, String) {
    let mut cur = bytes.to_vec();
    let mut cur_detail = detail;
    let mut steps = 0;
    let tag = format!("shrink-{}", std::process::id());
    // 1. shorter prefixes
    let mut len = cur.len() / 2;
    while len >= 1 && steps < max_steps {
        steps += 1;
        let cand = cur[..len].to_vec();
        match eval_one(&cand, &tag) {
            Some((s, d)) if s == sig => {
                cur = cand;
                cur_detail = d;
                len = cur.len() / 2;
            }
            _ => {
                len = (len + cur.len()) / 2;
                if len >= cur.len() {
                    break;
                }
            }
        }
    }
    // 2. zero single bytes
    let mut i = 1;
    while i < cur.len() && steps < max_steps {
        if cur[i] != 0 {
            steps += 1;
            let mut cand = cur.clone();
            cand[i] = 0;
            if let Some((s, d)) = eval_one(&cand, &tag) {
                if s == sig {
                    cur = cand;
                    cur_detail = d;
                }
            }
        }
        i += 1;
    }
    (cur, cur_detail)
}
