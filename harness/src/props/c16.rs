//! C16 — exposition does not depend on the protobuf feature (differential between two builds).

use std::cell::RefCell;
use std::io::{BufRead, BufReader, Write};
use std::process::{Child, ChildStdin, ChildStdout, Command, Stdio};

use crate::engine::{fail, Budget, Property, Report, Tier, Verdict};
use crate::exec16;
use crate::src::Src;

pub struct C16;

struct Peer {
    _child: Child,
    stdin: ChildStdin,
    stdout: BufReader<ChildStdout>,
}

impl Drop for Peer {
    fn drop(&mut self) {
        let _ = self._child.kill();
        let _ = self._child.wait();
    }
}

thread_local! {
    static PEER: RefCell<Option<Peer>> = const { RefCell::new(None) };
}

fn spawn_peer() -> Peer {
    let exe = match std::env::var("PV_PLAIN_EXEC") {
        Ok(e) => e,
        Err(_) => {
            let d = crate::engine::verif_root().join("target/harness-plain/debug/pvplain");
            d.to_string_lossy().to_string()
        }
    };
    let mut child = match Command::new(&exe).stdin(Stdio::piped()).stdout(Stdio::piped()).stderr(Stdio::null()).spawn() {
        Ok(c) => c,
        Err(e) => {
            eprintln!("pv: cannot start the plain-model executor {}: {} (inconclusive)", exe, e);
            std::process::exit(2);
        }
    };
    let stdin = child.stdin.take().unwrap();
    let stdout = BufReader::new(child.stdout.take().unwrap());
    Peer { _child: child, stdin, stdout }
}

/// Returns (dump, nondeterministic) from the plain-model build.
fn ask_peer(bytes: &[u8]) -> Result<(String, bool), String> {
    PEER.with(|p| {
        let mut p = p.borrow_mut();
        if p.is_none() {
            *p = Some(spawn_peer());
        }
        let peer = p.as_mut().unwrap();
        let mut line = String::with_capacity(bytes.len() * 2 + 1);
        for b in bytes {
            line.push_str(&format!("{:02x}", b));
        }
        if bytes.is_empty() {
            line.push_str("00");
        }
        line.push('\n');
        if peer.stdin.write_all(line.as_bytes()).is_err() || peer.stdin.flush().is_err() {
            *p = None;
            return Err("executor pipe closed".into());
        }
        let mut dump = String::new();
        loop {
            let mut l = String::new();
            match peer.stdout.read_line(&mut l) {
                Ok(0) | Err(_) => {
                    *p = None;
                    return Err("executor died".into());
                }
                Ok(_) => {}
            }
            if let Some(rest) = l.strip_prefix("END ") {
                return Ok((dump, rest.trim() == "1"));
            }
            dump.push_str(&l);
        }
    })
}

impl Property for C16 {
    fn id(&self) -> &'static str {
        "C16"
    }
    fn rule(&self) -> &'static str {
        "case = byte string decoded by one executor source into a deterministic scenario of 3-24 API calls: create scalar metrics \
         (6 kinds) and vectors (5 kinds) with generated options (some invalid), update them (exact values and arbitrary f64), \
         create/remove/reset vector children, create registries (valid and invalid prefix / common labels, some repeating a metric's own label name and value), register / unregister, \
         custom collectors injecting families built through the setters both data models share (all four printable types, \
         timestamps, summaries, unset type/help, repeated-field setters called twice, label pairs built with the setters in three orders, self-consistent histograms with an explicit +Inf bucket), gather and encode (encode, encode_utf8, encode_to_string). The same source is \
         compiled against prometheus with default features (in-process) and with --no-default-features (long-lived child process); \
         oracle: the two canonical dumps (gathered structure + hex of the text encodings + Ok/Err of every call) are byte-identical. \
         A build that disagrees with itself on two runs of one scenario is counted as nondeterministic (C07's subject), not as a C16 \
         violation. Non-trivial: some gather returned >= 2 families of >= 2 types with >= 1 label and >= 1 non-integer value. \
         Distinct = decoded choices."
    }
    fn assumptions(&self) -> Vec<&'static str> {
        vec!["error messages are not compared (they embed Debug output of model types); only the error variant is"]
    }
    fn budget(&self, tier: Tier) -> Budget {
        match tier {
            Tier::Quick => Budget { cases: 80000, min_len: 8, max_len: 300 },
            Tier::Thorough => Budget { cases: 2000000, min_len: 8, max_len: 400 },
        }
    }

    fn run(&self, src: &mut Src, rep: &mut Report) -> Verdict {
        let data: Vec<u8> = src.data().to_vec();
        // fold the case into the key (the executor decodes its own reader)
        for b in &data {
            let _ = b;
        }
        let a = exec16::run(&data);
        let a2 = exec16::run(&data);
        // mirror the consumption so that distinctness is counted on the decoded scenario
        {
            let mut h: u64 = 0xcbf29ce484222325;
            for b in a.dump.bytes() {
                h ^= b as u64;
                h = h.wrapping_mul(0x100000001b3);
            }
            // feed the dump hash into the key through the reader's hashing
            let _ = src.below(1);
            src.mix_external(h);
        }
        if a.mixed {
            return Verdict::Discard("different metric types registered under one name (hash-order dependent, C14's known finding)");
        }
        if a.dump != a2.dump {
            return Verdict::Discard("nondeterministic in the protobuf build");
        }
        let (b, nondet) = match ask_peer(&data) {
            Ok(x) => x,
            Err(e) => {
                eprintln!("pv: plain-model executor failure: {} (inconclusive)", e);
                std::process::exit(2);
            }
        };
        if nondet {
            return Verdict::Discard("nondeterministic in the plain build");
        }
        if b.starts_with("PANIC") {
            return fail("panic-in-plain-build", format!("the --no-default-features build panicked on scenario: {}", a.summary));
        }
        if a.dump != b {
            // first differing line
            let la: Vec<&str> = a.dump.lines().collect();
            let lb: Vec<&str> = b.lines().collect();
            let i = la.iter().zip(&lb).position(|(x, y)| x != y).unwrap_or(la.len().min(lb.len()));
            let kind = match la.get(i).or(lb.get(i)) {
                Some(l) if l.starts_with("T") => "text-encoding-differs",
                Some(l) if l.starts_with("F ") || l.starts_with(" S ") => "gathered-structure-differs",
                _ => "call-outcome-differs",
            };
            return fail(
                kind,
                format!(
                    "line {}: protobuf build {:?} vs plain build {:?} ;; scenario: {}",
                    i,
                    la.get(i).map(|s| s.chars().take(300).collect::<String>()),
                    lb.get(i).map(|s| s.chars().take(300).collect::<String>()),
                    a.summary
                ),
            );
        }
        rep.nontrivial = a.nontrivial;
        if a.dump.contains("custom") {
            rep.class("with-custom-families");
        }
        if a.dump.contains(" err ") || a.dump.contains("ERR") {
            rep.class("with-refused-call");
        }
        if rep.want_sample {
            rep.sample = Some(format!("{} ;; dump {} bytes", a.summary, a.dump.len()));
        }
        Verdict::Pass
    }
}
