//! C06 — registry admission is exact and a failed registration leaves no trace.

use std::collections::{BTreeMap, BTreeSet, HashMap};

use prometheus::core::{Collector, Desc};
use prometheus::proto::MetricFamily;
use prometheus::{Counter, CounterVec, Opts, Registry};

use crate::engine::{Budget, Property, Report, Tier, Verdict};
use crate::ensure;
use crate::neutral::{neutral_all, NFamily, NSample, NType, NValue};
use crate::sched::{run, ExecVerdict, OpFn};
use crate::schedsrc::make_chooser;
use crate::src::Src;
use crate::wgl::{linearize, HOp};

pub struct C06;

const NAMES: &[&str] = &["m", "n", "m_x"];
// (two of the help texts are also constant label names, one is a variable label name with the '$' the dimension hash puts in front)
// (... and two differ from the first only in white space at an end)
const HELPS: &[&str] = &["h", "g", "k", "j", "$v", "h ", " h"];
const CNAMES: &[&str] = &["k", "j"];
const CVALUES: &[&str] = &["1", "2"];
const VNAMES: &[&str] = &["v", "w"];

#[derive(Clone, Debug, PartialEq, Eq, PartialOrd, Ord)]
struct DSpec {
    name: String,
    help: String,
    consts: BTreeMap<String, String>,
    vars: BTreeSet<String>,
    /// the variable labels are listed in descending instead of ascending order (no part of identity or signature)
    rev: bool,
}

type IdKey = (String, Vec<String>);
type Sig = (String, BTreeSet<String>, BTreeSet<String>);

impl DSpec {
    fn id(&self) -> IdKey {
        (self.name.clone(), self.consts.values().cloned().collect())
    }
    fn sig(&self) -> Sig {
        (self.help.clone(), self.consts.keys().cloned().collect(), self.vars.clone())
    }
    fn var_list(&self) -> Vec<String> {
        if self.rev {
            self.vars.iter().rev().cloned().collect()
        } else {
            self.vars.iter().cloned().collect()
        }
    }
    fn desc(&self) -> Desc {
        let cm: HashMap<String, String> = self.consts.iter().map(|(k, v)| (k.clone(), v.clone())).collect();
        Desc::new(self.name.clone(), self.help.clone(), self.var_list(), cm).unwrap()
    }
}

#[derive(Clone)]
struct Custom {
    descs: Vec<Desc>,
    specs: Vec<DSpec>,
    tag: f64,
}

fn sample_for(spec: &DSpec, tag: f64) -> NSample {
    let mut labels: Vec<(String, String)> = spec.consts.iter().map(|(k, v)| (k.clone(), v.clone())).collect();
    for v in &spec.vars {
        labels.push((v.clone(), "x".to_string()));
    }
    labels.sort();
    NSample { labels, value: NValue::Counter(tag), ts: 0 }
}

impl Collector for Custom {
    fn desc(&self) -> Vec<&Desc> {
        self.descs.iter().collect()
    }
    fn collect(&self) -> Vec<MetricFamily> {
        self.specs
            .iter()
            .map(|s| {
                crate::neutral::to_lib(&NFamily {
                    name: s.name.clone(),
                    help: s.help.clone(),
                    ty: NType::Counter,
                    samples: vec![sample_for(s, self.tag)],
                })
            })
            .collect()
    }
}

#[derive(Clone)]
enum Coll {
    Custom(Custom),
    Counter(Counter, DSpec),
    Vec(CounterVec, DSpec),
}

impl Coll {
    fn specs(&self) -> Vec<DSpec> {
        match self {
            Coll::Custom(c) => c.specs.clone(),
            Coll::Counter(_, s) | Coll::Vec(_, s) => vec![s.clone()],
        }
    }
    fn boxed(&self) -> Box<dyn Collector> {
        match self {
            Coll::Custom(c) => Box::new(c.clone()),
            Coll::Counter(c, _) => Box::new(c.clone()),
            Coll::Vec(c, _) => Box::new(c.clone()),
        }
    }
    fn samples(&self, tag: f64) -> Vec<(String, NSample)> {
        self.specs().iter().map(|s| (s.name.clone(), sample_for(s, tag))).collect()
    }
    fn self_inconsistent(&self) -> bool {
        let s = self.specs();
        for i in 0..s.len() {
            for j in 0..i {
                if s[i].id() == s[j].id() || (s[i].name == s[j].name && s[i].sig() != s[j].sig()) {
                    return true;
                }
            }
        }
        false
    }
}

fn gen_dspec(src: &mut Src) -> DSpec {
    let name = src.pick(NAMES).to_string();
    let help = src.pick(HELPS).to_string();
    let mut consts = BTreeMap::new();
    for cn in CNAMES {
        if src.chance(110) {
            consts.insert(cn.to_string(), src.pick(CVALUES).to_string());
        }
    }
    let mut vars = BTreeSet::new();
    for vn in VNAMES {
        if src.chance(80) {
            vars.insert(vn.to_string());
        }
    }
    let rev = vars.len() >= 2 && src.chance(128);
    DSpec { name, help, consts, vars, rev }
}

/// A descriptor that shares the name (and usually the signature) of `base` but differs in a
/// constant-label value — the legitimate way to have several collectors under one name.
fn sibling(src: &mut Src, base: &DSpec) -> DSpec {
    let mut d = base.clone();
    if d.consts.is_empty() {
        d.consts.insert("k".into(), src.pick(CVALUES).to_string());
    } else {
        let k = d.consts.keys().next().unwrap().clone();
        let cur = d.consts[&k].clone();
        d.consts.insert(k, if cur == "1" { "2".into() } else { "1".into() });
    }
    if src.chance(40) {
        d.help = src.pick(HELPS).to_string();
    }
    if d.vars.len() >= 2 && src.chance(128) {
        // the same variable label names, listed the other way round
        d.rev = !d.rev;
    }
    d
}

fn make_coll(src: &mut Src, pool: &[Coll], tag: f64, rep: &mut Report) -> Coll {
    let existing: Vec<DSpec> = pool.iter().flat_map(|c| c.specs()).collect();
    let kind = src.below(10);
    let derive = |src: &mut Src| -> DSpec {
        if !existing.is_empty() && src.chance(150) {
            let b = &existing[src.below(existing.len())];
            match src.below(4) {
                0 => b.clone(),
                1 | 2 => sibling(src, b),
                _ => {
                    let mut d = b.clone();
                    d.help = src.pick(HELPS).to_string();
                    d
                }
            }
        } else {
            gen_dspec(src)
        }
    };
    match kind {
        0 | 1 => {
            let mut s = derive(src);
            s.vars.clear();
            let mut o = Opts::new(s.name.clone(), s.help.clone());
            for (k, v) in &s.consts {
                o = o.const_label(k.clone(), v.clone());
            }
            let c = Counter::with_opts(o).unwrap();
            c.inc_by(tag);
            Coll::Counter(c, s)
        }
        2 => {
            let mut s = derive(src);
            if s.vars.is_empty() {
                s.vars.insert("v".into());
            }
            let mut o = Opts::new(s.name.clone(), s.help.clone());
            for (k, v) in &s.consts {
                o = o.const_label(k.clone(), v.clone());
            }
            let listed = s.var_list();
            let names: Vec<&str> = listed.iter().map(|x| x.as_str()).collect();
            let c = CounterVec::new(o, &names).unwrap();
            let vals: Vec<&str> = names.iter().map(|_| "x").collect();
            c.with_label_values(&vals).inc_by(tag);
            Coll::Vec(c, s)
        }
        3 | 4 => {
            let s = derive(src);
            Coll::Custom(Custom { descs: vec![s.desc()], specs: vec![s], tag })
        }
        _ => {
            // multi-descriptor collector; biased so that the first descriptor is fresh and a later one collides
            let mut n = 2 + src.below(2);
            if n == 3 && src.chance(40) {
                // occasionally many descriptors in one collector
                n += src.below(12);
            }
            let mut specs: Vec<DSpec> = vec![];
            // 4% of the custom collectors are large: two descriptors of one name (agreeing or disagreeing in help) with 16-40 descriptors
            // of other names between them
            if src.chance(10) {
                let mut first = derive(src);
                if src.chance(128) {
                    // half of them under a name the registry has never seen
                    first.name = format!("big_{}", pool.len());
                }
                let mut last = sibling(src, &first);
                if src.chance(170) {
                    last.help = HELPS.iter().find(|h| **h != first.help).unwrap().to_string();
                }
                specs.push(first);
                for k in 0..16 + src.below(25) {
                    specs.push(DSpec { name: format!("filler_{}", k), help: "h".into(), consts: BTreeMap::new(), vars: BTreeSet::new(), rev: false });
                }
                specs.push(last);
                rep.class("large-collector(two descriptors of one name, 16-40 others between)");
                return Coll::Custom(Custom { descs: specs.iter().map(|s| s.desc()).collect(), specs, tag });
            }
            for i in 0..n {
                let s = if i == 0 && src.chance(170) {
                    // fresh: a name/value combination not used so far if possible
                    let mut d = gen_dspec(src);
                    let mut tries = 0;
                    while existing.iter().any(|e| e.id() == d.id()) && tries < 4 {
                        d = gen_dspec(src);
                        tries += 1;
                    }
                    d
                } else {
                    derive(src)
                };
                specs.push(s);
            }
            rep.class("multi-descriptor-collector");
            Coll::Custom(Custom { descs: specs.iter().map(|s| s.desc()).collect(), specs, tag })
        }
    }
}

#[derive(Default)]
struct Model {
    registered: BTreeMap<BTreeSet<IdKey>, usize>, // desc-id set -> collector index
    ids: BTreeSet<IdKey>,
    sigs: BTreeMap<String, Sig>,
}

type Multiset = Vec<(String, Vec<(String, String)>, u64)>;

/// Operations of the concurrent phase (indices into the pool).
#[derive(Clone, Debug)]
enum COp {
    Register(usize),
    Unregister(usize),
    Gather,
}

#[derive(Clone, Debug, PartialEq)]
enum CRes {
    Ok(bool),
    Gathered(Multiset),
}

/// Sequential reference for the concurrent phase: the admission model of the sequential phase, made hashable.
#[derive(Clone, PartialEq, Eq, Hash)]
struct CModel {
    registered: BTreeMap<BTreeSet<IdKey>, usize>,
    ids: BTreeSet<IdKey>,
    sigs: BTreeMap<String, Sig>,
    pool: std::sync::Arc<Vec<(Vec<DSpec>, Multiset)>>,
}

impl std::hash::Hash for DSpec {
    fn hash<H: std::hash::Hasher>(&self, h: &mut H) {
        self.name.hash(h);
        self.help.hash(h);
        self.consts.hash(h);
        self.vars.hash(h);
    }
}

impl crate::wgl::Model for CModel {
    type Op = COp;
    type Res = CRes;
    fn apply(&mut self, op: &COp) -> CRes {
        match op {
            COp::Register(i) => {
                let specs = &self.pool[*i].0;
                let bad = specs.iter().any(|s| self.ids.contains(&s.id()) || self.sigs.get(&s.name).map_or(false, |g| *g != s.sig()));
                if bad {
                    return CRes::Ok(false);
                }
                self.registered.insert(specs.iter().map(|s| s.id()).collect(), *i);
                for s in specs.iter() {
                    self.ids.insert(s.id());
                    self.sigs.insert(s.name.clone(), s.sig());
                }
                CRes::Ok(true)
            }
            COp::Unregister(i) => {
                let specs = &self.pool[*i].0;
                let idset: BTreeSet<IdKey> = specs.iter().map(|s| s.id()).collect();
                if self.registered.remove(&idset).is_none() {
                    return CRes::Ok(false);
                }
                for s in specs.iter() {
                    self.ids.remove(&s.id());
                }
                CRes::Ok(true)
            }
            COp::Gather => {
                let mut want: Multiset = vec![];
                for (_, ci) in &self.registered {
                    want.extend(self.pool[*ci].1.iter().cloned());
                }
                want.sort();
                CRes::Gathered(want)
            }
        }
    }
}

/// Concurrent phase: 2-3 threads register / unregister / gather on a fresh registry under the deterministic
/// scheduler (the registry's lock is a scheduling point); the observed results together with a quiescent final
/// gather must be explained by some one-at-a-time order consistent with real time against the admission model.
fn concurrent_phase(src: &mut Src, rep: &mut Report, pool: &[Coll]) -> Verdict {
    let usable: Vec<usize> = (0..pool.len()).filter(|i| !pool[*i].self_inconsistent()).collect();
    if usable.len() < 2 {
        return Verdict::Pass;
    }
    let info: Vec<(Vec<DSpec>, Multiset)> = pool
        .iter()
        .enumerate()
        .map(|(i, c)| {
            let mut m: Multiset = c
                .samples((i + 1) as f64)
                .into_iter()
                .filter_map(|(name, s)| if let NValue::Counter(v) = s.value { Some((name, s.labels, v.to_bits())) } else { None })
                .collect();
            m.sort();
            (c.specs(), m)
        })
        .collect();
    let nthreads = 2 + src.below(2);
    let mut prog: Vec<Vec<COp>> = vec![];
    for _ in 0..nthreads {
        let n = 1 + src.below(3);
        let mut ops = vec![];
        for _ in 0..n {
            let i = usable[src.below(usable.len())];
            ops.push(match src.below(10) {
                0..=5 => COp::Register(i),
                6..=7 => COp::Unregister(i),
                _ => COp::Gather,
            });
        }
        prog.push(ops);
    }
    let reg = Registry::new();
    let exec_op = |op: &COp| -> CRes {
        match op {
            COp::Register(i) => CRes::Ok(reg.register(pool[*i].boxed()).is_ok()),
            COp::Unregister(i) => CRes::Ok(reg.unregister(pool[*i].boxed()).is_ok()),
            COp::Gather => CRes::Gathered(gather_multiset(&neutral_all(&reg.gather()))),
        }
    };
    let total: usize = prog.iter().map(|p| p.len()).sum();
    let threads: Vec<Vec<OpFn<CRes>>> = prog
        .iter()
        .map(|ops| {
            ops.iter()
                .map(|op| {
                    let op = op.clone();
                    let f = &exec_op;
                    Box::new(move || f(&op)) as OpFn<CRes>
                })
                .collect()
        })
        .collect();
    let mut chooser = make_chooser(src, nthreads, total * 8 + 4, rep);
    let exec = run(threads, chooser.as_mut(), 12_000);
    drop(chooser);
    let fail = |sig: &str, detail: String| Verdict::Fail { sig: format!("concurrent:{}", sig), detail };
    match &exec.verdict {
        ExecVerdict::Completed => {}
        ExecVerdict::StepLimit | ExecVerdict::Halted => return Verdict::Pass,
        ExecVerdict::Panic(m) => return fail("panic", format!("{} ;; program {:?}", m, prog)),
        ExecVerdict::Stuck { spinners, blocked } => return fail("stuck", format!("no thread can make progress (spinning {:?}, blocked {:?}) ;; program {:?}", spinners, blocked, prog)),
    }
    let mut hist: Vec<HOp<COp, CRes>> = exec
        .ops
        .iter()
        .map(|o| HOp { op: prog[o.thread][o.idx].clone(), res: o.result.clone().unwrap(), invoke: o.invoke, response: o.response.unwrap() })
        .collect();
    let last = exec.trace.len() + 1;
    hist.push(HOp { op: COp::Gather, res: exec_op(&COp::Gather), invoke: last, response: last + 1 });
    let init = CModel { registered: BTreeMap::new(), ids: BTreeSet::new(), sigs: BTreeMap::new(), pool: std::sync::Arc::new(info.clone()) };
    if linearize(&init, &hist).is_none() {
        let h: Vec<String> = hist.iter().map(|h| format!("{:?} -> {:?} [{},{}]", h.op, h.res, h.invoke, h.response)).collect();
        let p: Vec<String> = info.iter().enumerate().map(|(i, c)| format!("#{}={:?}", i, c.0.iter().map(|s| (s.name.clone(), s.help.clone(), s.consts.clone(), s.vars.clone())).collect::<Vec<_>>())).collect();
        return fail("not-linearizable", format!("no one-at-a-time order explains: {} ;; pool: {}", h.join("; "), p.join(" ")));
    }
    rep.class("concurrent-phase");
    // overlapping registrations that cannot both be admitted
    for (a, ha) in hist.iter().enumerate() {
        for hb in hist.iter().skip(a + 1) {
            if let (COp::Register(i), COp::Register(j)) = (&ha.op, &hb.op) {
                let ov = ha.invoke < hb.response && hb.invoke < ha.response;
                let clash = info[*i].0.iter().any(|s| info[*j].0.iter().any(|t| s.id() == t.id() || (s.name == t.name && s.sig() != t.sig())));
                if ov && clash {
                    rep.class("concurrent-overlapping-conflicting-registrations");
                }
            }
        }
    }
    Verdict::Pass
}

fn gather_multiset(fams: &[NFamily]) -> Vec<(String, Vec<(String, String)>, u64)> {
    let mut out = vec![];
    for f in fams {
        for s in &f.samples {
            let mut l = s.labels.clone();
            l.sort();
            let v = match &s.value {
                NValue::Counter(v) | NValue::Gauge(v) => v.to_bits(),
                _ => 0,
            };
            out.push((f.name.clone(), l, v));
        }
    }
    out.sort();
    out
}

impl Property for C06 {
    fn id(&self) -> &'static str {
        "C06"
    }
    fn rule(&self) -> &'static str {
        "case = pool of 3-7 collectors (Counter, CounterVec, custom single- and multi-descriptor collectors) over overlapping pools \
         of 3 names, 7 help texts (two of them equal to constant label names, one to a variable label name with a dollar sign in front, two differing from another only in white space at an end), 2 constant-label names x 2 values, 2 variable-label names (listed in ascending or descending order; a sibling may list them the other way round), later collectors derived from earlier \
         ones (equal / sibling with another constant value / other help), in 2% of cases on top of 50-550 registered background \
         collectors; then a history of 4-30 register/unregister/gather calls. \
         Oracles: (1) reference model of admission (identity keys, per-name signatures of everything ever registered), error kind \
         AlreadyReg when equality is the only reason, gather() = samples of exactly the registered collectors; (2) twin Registry \
         that receives the same history without the refused calls must give identical results and gathers; (3) in 12% of cases a \
         concurrent phase follows: 2-3 threads x 1-3 register/unregister/gather calls on a fresh registry under the deterministic \
         scheduler, results + quiescent gather must be linearizable against the same admission model. Non-trivial: a refused \
         registration is followed by a registration/unregistration involving one of the same names. Distinct = decoded choices."
    }
    fn assumptions(&self) -> Vec<&'static str> {
        vec![
            "collectors whose own descriptors are mutually inconsistent are outside the statement: nothing is required of the outcome (if accepted the history is discarded)",
            "all samples under one name are counters (mixed kinds under one name are C14's subject)",
        ]
    }
    fn budget(&self, tier: Tier) -> Budget {
        match tier {
            Tier::Quick => Budget { cases: 150000, min_len: 8, max_len: 300 },
            Tier::Thorough => Budget { cases: 5000000, min_len: 8, max_len: 400 },
        }
    }

    fn post(&self, tier: Tier, seed: u64, stats: &mut crate::engine::Stats) -> Result<(), (String, String, Vec<u8>)> {
        // the concurrent phase once more, on free-running threads
        crate::freerun::free_runs(self, tier, seed, stats)
    }

    fn run(&self, src: &mut Src, rep: &mut Report) -> Verdict {
        let npool = 3 + src.below(5);
        let mut pool: Vec<Coll> = vec![];
        for i in 0..npool {
            let c = make_coll(src, &pool, (i + 1) as f64, rep);
            pool.push(c);
        }
        let pool_desc = |pool: &[Coll]| -> String {
            pool.iter()
                .enumerate()
                .map(|(i, c)| format!("#{}={:?}", i, c.specs().iter().map(|s| (s.name.clone(), s.help.clone(), s.consts.clone(), s.vars.clone())).collect::<Vec<_>>()))
                .collect::<Vec<_>>()
                .join(" ")
        };
        let reg = Registry::new();
        let twin = Registry::new();
        let mut model = Model::default();
        // 2% of cases: the registry already holds 50-550 unrelated collectors (the library imposes no limit); they stay
        // registered throughout and every gather must keep showing each of them
        let npick = pool.len();
        let mut accepted: Vec<(bool, usize)> = vec![];
        if src.chance(5) {
            for k in 0..(50 + src.below(500)) {
                let spec = DSpec { name: format!("bulk_{}", (k * 7919 + 13) % 10007), help: "h".into(), consts: BTreeMap::new(), vars: BTreeSet::new(), rev: false };
                let c = Counter::with_opts(Opts::new(spec.name.clone(), spec.help.clone())).unwrap();
                let idx = pool.len();
                c.inc_by((idx + 1) as f64);
                let coll = Coll::Counter(c, spec.clone());
                ensure!(reg.register(coll.boxed()).is_ok() && twin.register(coll.boxed()).is_ok(), "valid-registration-refused", "background collector {:?}", spec.name);
                model.registered.insert([spec.id()].into_iter().collect(), idx);
                model.ids.insert(spec.id());
                model.sigs.insert(spec.name.clone(), spec.sig());
                accepted.push((true, idx));
                pool.push(coll);
            }
            rep.class("large-registry(50-550 background collectors)");
        }
        let nops = 4 + src.below(27);
        let mut log: Vec<String> = vec![];
        let mut refused_names: BTreeSet<String> = BTreeSet::new();
        let mut nontrivial = false;
        let mut refused_partway = false;

        for step in 0..nops {
            let op = src.below(10);
            let i = src.below(npick);
            let c = &pool[i];
            let specs = c.specs();
            let idset: BTreeSet<IdKey> = specs.iter().map(|s| s.id()).collect();
            match op {
                0..=5 => {
                    let r = reg.register(c.boxed());
                    let equal_hit = specs.iter().any(|s| model.ids.contains(&s.id()));
                    let sig_hit = specs.iter().any(|s| model.sigs.get(&s.name).map_or(false, |g| *g != s.sig()));
                    let selfinc = c.self_inconsistent();
                    if selfinc {
                        rep.class("self-inconsistent-collector");
                        if r.is_ok() {
                            // nothing is required of the admission itself, but whatever was admitted is a registered
                            // collector: it must be possible to unregister it ("unregister succeeds exactly for a
                            // currently registered collector")
                            let u = reg.unregister(c.boxed());
                            ensure!(
                                u.is_ok(),
                                "admitted-collector-cannot-be-unregistered",
                                "step {}: register(#{} {:?}) returned Ok, but unregister of the same collector right afterwards returned {:?}; history: {}",
                                step, i, specs, u, log.join(" ")
                            );
                            return Verdict::Discard("self-inconsistent collector accepted");
                        }
                    } else {
                        let want_ok = !equal_hit && !sig_hit;
                        ensure!(
                            r.is_ok() == want_ok,
                            if want_ok { "valid-registration-refused" } else { "invalid-registration-accepted" },
                            "step {}: register(#{} {:?}) returned {:?}; model: equal descriptor registered={} signature disagreement={}; registered={:?}; signatures={:?}; history: {}",
                            step, i, specs, r, equal_hit, sig_hit, model.registered.keys().collect::<Vec<_>>(), model.sigs, log.join(" ")
                        );
                        if equal_hit && !sig_hit {
                            ensure!(
                                matches!(r, Err(prometheus::Error::AlreadyReg)),
                                "equal-descriptor-not-alreadyreg",
                                "step {}: register(#{} {:?}) refused with {:?} but an equal descriptor is the only reason",
                                step, i, specs, r
                            );
                        }
                    }
                    if r.is_ok() {
                        let t = twin.register(c.boxed());
                        ensure!(t.is_ok(), "twin-diverges", "step {}: twin refused register(#{}) {:?} that the registry accepted; history: {}", step, i, t, log.join(" "));
                        accepted.push((true, i));
                        model.registered.insert(idset.clone(), i);
                        for s in &specs {
                            model.ids.insert(s.id());
                            model.sigs.insert(s.name.clone(), s.sig());
                        }
                        if specs.iter().any(|s| refused_names.contains(&s.name)) {
                            nontrivial = true;
                        }
                        log.push(format!("reg#{}:ok", i));
                    } else {
                        // model-free replica: a fresh registry that only ever saw the accepted calls must refuse it too
                        let fresh = Registry::new();
                        for (is_reg, k) in &accepted {
                            let _ = if *is_reg { fresh.register(pool[*k].boxed()) } else { fresh.unregister(pool[*k].boxed()) };
                        }
                        let fr = fresh.register(c.boxed());
                        ensure!(
                            fr.is_err(),
                            "refusal-depends-on-refused-calls",
                            "step {}: register(#{} {:?}) was refused ({:?}) but a fresh registry that saw only the accepted calls accepts it; history: {}",
                            step, i, specs, r, log.join(" ")
                        );
                        // which descriptor was the first offender?
                        let first_bad = specs.iter().position(|s| {
                            model.ids.contains(&s.id()) || model.sigs.get(&s.name).map_or(false, |g| *g != s.sig())
                        });
                        if matches!(first_bad, Some(p) if p >= 1) {
                            refused_partway = true;
                        }
                        if specs.iter().any(|s| refused_names.contains(&s.name)) {
                            nontrivial = true;
                        }
                        for s in &specs {
                            refused_names.insert(s.name.clone());
                        }
                        log.push(format!("reg#{}:refused", i));
                    }
                }
                6..=7 if src.chance(20) => {
                    // a never-registered collector whose descriptors are those of #i plus 3-90 others that nobody registered: it is not a
                    // registered collector whatever #i is, so unregister fails and (checked below, like after every call) nothing changes
                    let mut sup = specs.clone();
                    let extra = if src.chance(128) { 3 + src.below(8) } else { 62 + src.below(30) };
                    for k in 0..extra {
                        sup.push(DSpec { name: format!("never_registered_{}", k), help: "h".into(), consts: BTreeMap::new(), vars: BTreeSet::new(), rev: false });
                    }
                    let big = Custom { descs: sup.iter().map(|s| s.desc()).collect(), specs: sup, tag: 0.0 };
                    let r = reg.unregister(Box::new(big));
                    ensure!(
                        r.is_err(),
                        "unregister-wrong-result",
                        "step {}: unregister of a never-registered collector (the {} descriptors of #{} plus {} unregistered ones) returned Ok; history: {}",
                        step, specs.len(), i, extra, log.join(" ")
                    );
                    rep.class("unregister-of-a-never-registered-superset");
                    log.push(format!("unreg(superset of #{} +{}):err", i, extra));
                }
                6..=7 => {
                    let r = reg.unregister(c.boxed());
                    let want_ok = model.registered.contains_key(&idset);
                    ensure!(
                        r.is_ok() == want_ok,
                        "unregister-wrong-result",
                        "step {}: unregister(#{} {:?}) returned {:?} but model registered={}; history: {} ;; pool: {}",
                        step, i, specs, r, want_ok, log.join(" "), pool_desc(&pool)
                    );
                    if r.is_ok() {
                        let t = twin.unregister(c.boxed());
                        ensure!(t.is_ok(), "twin-diverges", "step {}: twin refused unregister(#{}): {:?}", step, i, t);
                        accepted.push((false, i));
                        model.registered.remove(&idset);
                        for s in &specs {
                            model.ids.remove(&s.id());
                        }
                        if specs.iter().any(|s| refused_names.contains(&s.name)) {
                            nontrivial = true;
                        }
                        rep.class("unregister-ok");
                        log.push(format!("unreg#{}:ok", i));
                    } else {
                        log.push(format!("unreg#{}:err", i));
                    }
                }
                _ => {
                    log.push("gather".into());
                }
            }
            // after every call: gather shows exactly the registered collectors; twin agrees
            let g = gather_multiset(&neutral_all(&reg.gather()));
            let mut want: Vec<(String, Vec<(String, String)>, u64)> = vec![];
            for (_, ci) in &model.registered {
                for (name, s) in pool[*ci].samples((*ci + 1) as f64) {
                    if let NValue::Counter(v) = s.value {
                        want.push((name, s.labels, v.to_bits()));
                    }
                }
            }
            want.sort();
            ensure!(
                g == want,
                "gather-differs-from-registered-set",
                "step {}: gather() shows {:?} but the registered collectors' samples are {:?}; history: {}",
                step, g, want, log.join(" ")
            );
            let gt = gather_multiset(&neutral_all(&twin.gather()));
            ensure!(gt == g, "twin-diverges", "step {}: twin gather {:?} vs {:?}; history: {}", step, gt, g, log.join(" "));
        }
        if refused_partway {
            rep.class("refused-at-second-or-later-descriptor");
        }
        if !refused_names.is_empty() {
            rep.class("with-refused-registration");
        }
        rep.nontrivial = nontrivial;
        let want_concurrent = src.chance(30);
        if want_concurrent || crate::schedsrc::free_mode() {
            if let v @ Verdict::Fail { .. } = concurrent_phase(src, rep, &pool[..npick]) {
                return v;
            }
        }
        if rep.want_sample {
            let p: Vec<String> = pool.iter().take(npick).enumerate().map(|(i, c)| format!("#{}={:?}", i, c.specs().iter().map(|s| (s.name.clone(), s.help.clone(), s.consts.clone(), s.vars.clone())).collect::<Vec<_>>())).collect();
            rep.sample = Some(format!("pool: {} :: history: {}", p.join(" "), log.join(" ")));
        }
        Verdict::Pass
    }
}
