//! C18 — a timer records its duration exactly once, or never when discarded.

use prometheus::local::{LocalHistogram, LocalHistogramTimer};
use prometheus::{Histogram, HistogramOpts, HistogramTimer};

use crate::engine::{fail, Budget, Property, Report, Tier, Verdict};
use crate::src::Src;

pub struct C18;

enum T {
    Shared(HistogramTimer),
    Local(LocalHistogramTimer),
}

/// A local histogram: taken from the shared histogram itself, or the cached child of a local histogram VECTOR (the shared
/// histogram then is the child "x" of a HistogramVec).
enum Loc {
    H(LocalHistogram),
    V(prometheus::local::LocalHistogramVec),
}

impl Loc {
    fn hist(&mut self) -> &LocalHistogram {
        match self {
            Loc::H(l) => l,
            Loc::V(v) => v.with_label_values(&["x"]),
        }
    }
    fn flush(&mut self) {
        match self {
            Loc::H(l) => l.flush(),
            Loc::V(v) => v.flush(),
        }
    }
}

#[derive(Clone, Copy, Debug)]
enum End {
    ObserveDuration,
    StopAndRecord,
    StopAndDiscard,
    Drop,
    /// dropped by the unwinding of a (caught) panic
    DropInUnwind,
}

/// Ends a timer; returns the duration if the API returns one.
fn end_timer(t: T, how: End) -> Option<f64> {
    match (t, how) {
        (T::Shared(t), End::ObserveDuration) => {
            t.observe_duration();
            None
        }
        (T::Shared(t), End::StopAndRecord) => Some(t.stop_and_record()),
        (T::Shared(t), End::StopAndDiscard) => Some(t.stop_and_discard()),
        (T::Shared(t), End::Drop) => {
            drop(t);
            None
        }
        (T::Local(t), End::ObserveDuration) => {
            t.observe_duration();
            None
        }
        (T::Local(t), End::StopAndRecord) => Some(t.stop_and_record()),
        (T::Local(t), End::StopAndDiscard) => Some(t.stop_and_discard()),
        (T::Local(t), End::Drop) => {
            drop(t);
            None
        }
        (t, End::DropInUnwind) => {
            let r = std::panic::catch_unwind(std::panic::AssertUnwindSafe(move || {
                let _held = t;
                std::panic::resume_unwind(Box::new("c18: deliberate unwind"));
            }));
            let _ = r;
            None
        }
    }
}

/// 28 timers (shared / local x precise / coarse clock x three ways of ending), started 45 ms apart on their own threads and
/// held for 120 ms each (the first two for 4.4 s - longer than 2^32 ns -, the next two for 1.1 s), so that together they are alive across every instant of more than a second (any whole-second or
/// other clock boundary included). Each works on its own histogram. The recorded duration must lie between what the harness
/// measured inside the timer's lifetime and around it (std::time::Instant, the same monotonic clock), with 30 ms of
/// tolerance for the coarse clock's tick and millisecond truncation. Returns the number of timers checked.
fn held_timers() -> Result<usize, (String, String)> {
    use std::time::{Duration, Instant};
    const TOL: f64 = 0.030;
    let results: Vec<Result<(), (String, String)>> = std::thread::scope(|s| {
        let hs: Vec<_> = (0..28usize)
            .map(|k| {
                s.spawn(move || {
                    std::thread::sleep(Duration::from_millis(45 * k as u64));
                    let local_kind = k % 2 == 1;
                    let coarse = (k / 2) % 2 == 1;
                    let how = [End::StopAndRecord, End::ObserveDuration, End::Drop][(k / 4) % 3];
                    let hist = Histogram::with_opts(HistogramOpts::new("t", "h").buckets(vec![0.05, 10.0])).unwrap();
                    let local = hist.local();
                    let outer0 = Instant::now();
                    let t = match (local_kind, coarse) {
                        (false, false) => T::Shared(hist.start_timer()),
                        (false, true) => T::Shared(hist.start_coarse_timer()),
                        (true, false) => T::Local(local.start_timer()),
                        (true, true) => T::Local(local.start_coarse_timer()),
                    };
                    let inner0 = Instant::now();
                    // the first four (one of every clock / kind) stay alive for more than a second
                    std::thread::sleep(Duration::from_millis(if k < 2 { 4400 } else if k < 4 { 1100 } else { 120 }));
                    let inner = inner0.elapsed().as_secs_f64();
                    let returned = end_timer(t, how);
                    let outer = outer0.elapsed().as_secs_f64();
                    drop(local);
                    let what = format!("{} timer on the {} clock ended by {:?} (timer #{})", if local_kind { "local" } else { "shared" }, if coarse { "coarse" } else { "precise" }, how, k);
                    let (n, sum) = (hist.get_sample_count(), hist.get_sample_sum());
                    if n != 1 {
                        return Err(("timer-count-mismatch".to_string(), format!("{}: {} observations", what, n)));
                    }
                    for (name, v) in [("recorded", Some(sum)), ("returned", returned)] {
                        if let Some(v) = v {
                            if !(v >= inner - TOL && v <= outer + TOL) {
                                return Err((
                                    "timer-duration-wrong".to_string(),
                                    format!("{}: {} {} s, but the timer was alive for at least {:.4} s and at most {:.4} s", what, name, v, inner, outer),
                                ));
                            }
                        }
                    }
                    Ok(())
                })
            })
            .collect();
        hs.into_iter().map(|h| h.join().unwrap_or_else(|_| Err(("panic:held-timer".to_string(), "a held timer panicked".to_string())))).collect()
    });
    for r in &results {
        if let Err(e) = r {
            return Err(e.clone());
        }
    }
    Ok(results.len())
}

impl Property for C18 {
    fn id(&self) -> &'static str {
        "C18"
    }
    fn rule(&self) -> &'static str {
        "case = history of 3-25 operations over one Histogram and up to 2 LocalHistograms: start a shared / local timer on the precise or the coarse clock (<=5 alive), \
         end a chosen live timer by observe_duration / stop_and_record / stop_and_discard / drop (plain, or by the unwinding of a caught panic), on this thread or after moving \
         it to a freshly spawned thread (joined at once), observe_closure_duration / observe_closure_duration_coarse on the shared or a local histogram (the closure optionally observes / times / reads the same histogram), local flush / \
         clear / drop, create local (a quarter of the histories run on the child of a HistogramVec: local histograms may then be the cached children of local \
         vectors, and one of these may remove the label values, which flushes what it holds). Oracle: count model (shared count and every local's pending count after every operation; +1 \
         exactly for record/drop, +0 for discard; a local timer's observation reaches the shared histogram when the timer dies), \
         returned durations finite and >= 0 (a final stage holds 28 timers of every flavour for 120 ms - two of them for 4.4 s (more than 2^32 ns), two for 1.1 s -, staggered over more than a second, and requires the recorded duration to lie within the measured lifetime +- 30 ms), and the shared sample sum grows by exactly the returned duration; a fifth of the histories run on a histogram with 47 bounds (10 ns x 1.5^k) where the duration \
         returned by stop_and_record must be counted under exactly the bounds not smaller than it. Non-trivial: >=3 \
         timers alive at once, ended in an order different from creation, with >=1 discard and >=1 cross-thread end. \
         Distinct = decoded choices."
    }
    fn assumptions(&self) -> Vec<&'static str> {
        vec!["no assertion depends on how long anything took"]
    }
    fn budget(&self, tier: Tier) -> Budget {
        match tier {
            Tier::Quick => Budget { cases: 150000, min_len: 6, max_len: 120 },
            Tier::Thorough => Budget { cases: 2000000, min_len: 6, max_len: 160 },
        }
    }

    fn post(&self, _tier: Tier, _seed: u64, stats: &mut crate::engine::Stats) -> Result<(), (String, String, Vec<u8>)> {
        // timers that are held for real time: what they record must be their duration
        match held_timers() {
            Ok(n) => {
                stats.extra.push(("held_timers_checked".into(), serde_json::json!(n)));
                Ok(())
            }
            Err((sig, d)) => Err((sig, d, vec![0xFD; 8])),
        }
    }

    fn run(&self, src: &mut Src, rep: &mut Report) -> Verdict {
        // the 8-byte case 0xFD x 8 stands for the held-timer stage (see `post`)
        if src.data() == [0xFD; 8] {
            rep.class("held-timer-stage");
            return match held_timers() {
                Ok(_) => Verdict::Pass,
                Err((sig, d)) => fail(sig, d),
            };
        }
        // every recorded duration is a finite number >= 0, so it never falls in the bucket le=-1 and always in le=f64::MAX
        // (a fifth of the cases: a histogram without any finite bucket, or with a single one that no duration reaches)
        // (another fifth: a fine-grained latency histogram, 47 bounds from 10 ns upwards in steps of x1.5 between le=-1 and le=MAX - a
        // duration that stop_and_record returns must be counted under exactly the bounds that are not smaller than it)
        let cfg = src.below(10);
        let bounds: Vec<f64> = match cfg {
            0 => vec![f64::INFINITY],
            1 => vec![-1.0],
            8 | 9 => {
                let mut b = vec![-1.0];
                let mut x = 1e-8;
                for _ in 0..45 {
                    b.push(x);
                    x *= 1.5;
                }
                b.push(f64::MAX);
                rep.class("fine-grained-buckets(47 bounds)");
                b
            }
            _ => vec![-1.0, f64::MAX],
        };
        let fine = cfg >= 8;
        let cumulative = |hist: &Histogram| -> Vec<u64> {
            use prometheus::core::Metric;
            hist.metric().get_histogram().get_bucket().iter().map(|b| b.cumulative_count()).collect()
        };
        // a quarter of the histories run on the child "x" of a HistogramVec, and local histograms may then be the cached children of
        // local vectors - until one of them removes the label values (the handle stays usable, the vector is left alone from then on)
        let from_vec = src.chance(64);
        let vec = prometheus::HistogramVec::new(HistogramOpts::new("t", "h").buckets(bounds.clone()), &["l"]).unwrap();
        let mut vec_alive = from_vec;
        let hist = if from_vec { vec.with_label_values(&["x"]) } else { Histogram::with_opts(HistogramOpts::new("t", "h").buckets(bounds.clone())).unwrap() };
        if from_vec {
            rep.class("histogram-is-a-vector-child");
        }
        let mut locals: Vec<Option<Loc>> = vec![];
        let mut pending: Vec<u64> = vec![];
        let mut shared_count: u64 = 0;
        let mut timers: Vec<(usize, T)> = vec![]; // (creation number, timer)
        let mut created = 0usize;
        let nops = 3 + src.below(23);
        let mut log: Vec<String> = vec![];
        let mut max_alive = 0usize;
        let mut out_of_order = false;
        let mut discards = 0;
        let mut cross = 0;

        for step in 0..nops {
            let op = src.below(16);
            let sum_before = hist.get_sample_sum();
            let cum_before = if fine { cumulative(&hist) } else { vec![] };
            let mut returned: Option<f64> = None;
            let mut sum_exact = false; // sum must grow by exactly `returned`
            let mut may_grow = false; // sum may grow by an unknown non-negative amount
            match op {
                0..=4 => {
                    if timers.len() < 5 {
                        let coarse = src.chance(64);
                        timers.push((created, T::Shared(if coarse { hist.start_coarse_timer() } else { hist.start_timer() })));
                        created += 1;
                        if coarse {
                            rep.class("coarse-clock-timer");
                        }
                        log.push(if coarse { "start(coarse)".into() } else { "start".into() });
                    }
                }
                5 => {
                    let live: Vec<usize> = locals.iter().enumerate().filter(|(_, l)| l.is_some()).map(|(i, _)| i).collect();
                    if timers.len() < 5 && !live.is_empty() {
                        let li = live[src.below(live.len())];
                        let coarse = src.chance(64);
                        let l = locals[li].as_mut().unwrap().hist();
                        timers.push((created, T::Local(if coarse { l.start_coarse_timer() } else { l.start_timer() })));
                        created += 1;
                        if coarse {
                            rep.class("coarse-clock-timer");
                        }
                        log.push(format!("start{}@L{}", if coarse { "(coarse)" } else { "" }, li));
                    }
                }
                6..=10 => {
                    if !timers.is_empty() {
                        let k = src.below(timers.len());
                        if k != 0 {
                            out_of_order = true;
                        }
                        let (_, t) = timers.remove(k);
                        let how = *src.pick(&[End::StopAndRecord, End::Drop, End::StopAndDiscard, End::ObserveDuration, End::DropInUnwind]);
                        let threaded = src.chance(90);
                        returned = if threaded {
                            cross += 1;
                            match std::thread::spawn(move || end_timer(t, how)).join() {
                                Ok(r) => r,
                                Err(_) => return fail("panic:timer-on-thread", format!("{:?} panicked on another thread", how)),
                            }
                        } else {
                            end_timer(t, how)
                        };
                        match how {
                            End::StopAndDiscard => {
                                discards += 1;
                            }
                            End::StopAndRecord => {
                                shared_count += 1;
                                sum_exact = true;
                            }
                            _ => {
                                shared_count += 1;
                                may_grow = true;
                            }
                        }
                        log.push(format!("{:?}#{}{}", how, k, if threaded { "@thread" } else { "" }));
                    }
                }
                11 => {
                    let token = src.byte();
                    let live: Vec<usize> = locals.iter().enumerate().filter(|(_, l)| l.is_some()).map(|(i, _)| i).collect();
                    if !live.is_empty() && src.chance(128) {
                        let li = live[src.below(live.len())];
                        // the closure may itself use the histogram it is timed on
                        let body = src.below(5);
                        let l = locals[li].as_mut().unwrap().hist();
                        let coarse = src.chance(64);
                        let f = |g: &mut dyn FnMut() -> u8| if coarse { l.observe_closure_duration_coarse(|| g()) } else { l.observe_closure_duration(|| g()) };
                        let r = f(&mut || {
                            match body {
                                1 => l.observe(0.0),
                                2 => l.observe_closure_duration(|| ()),
                                3 => {
                                    let _ = l.start_timer().stop_and_record();
                                }
                                4 => {
                                    let _ = l.get_sample_count();
                                }
                                _ => {}
                            }
                            token
                        });
                        if r != token {
                            return fail("closure-result-lost", format!("local observe_closure_duration returned {} for {}", r, token));
                        }
                        // a local timer works on its own clone of the local histogram and delivers to the shared one when it ends
                        pending[li] += if (1..=2).contains(&body) { 2 } else { 1 };
                        if body == 3 {
                            shared_count += 1;
                            may_grow = true;
                        }
                        if body != 0 {
                            rep.class("closure-uses-its-own-histogram");
                        }
                        log.push(format!("closure[body {}]@L{}", body, li));
                    } else {
                        let body = src.below(5);
                        let coarse = src.chance(64);
                        let f = |g: &mut dyn FnMut() -> u8| if coarse { hist.observe_closure_duration_coarse(|| g()) } else { hist.observe_closure_duration(|| g()) };
                        let r = f(&mut || {
                            match body {
                                1 => hist.observe(0.0),
                                2 => hist.observe_closure_duration(|| ()),
                                3 => {
                                    let _ = hist.start_timer().stop_and_record();
                                }
                                4 => {
                                    let _ = hist.get_sample_count();
                                }
                                _ => {}
                            }
                            token
                        });
                        if r != token {
                            return fail("closure-result-lost", format!("observe_closure_duration returned {} for {}", r, token));
                        }
                        shared_count += if (1..=3).contains(&body) { 2 } else { 1 };
                        may_grow = true;
                        if body != 0 {
                            rep.class("closure-uses-its-own-histogram");
                        }
                        log.push(format!("closure[body {}]", body));
                    }
                }
                12 => {
                    if locals.iter().filter(|l| l.is_some()).count() < 2 {
                        if vec_alive && src.chance(150) {
                            locals.push(Some(Loc::V(vec.local())));
                            rep.class("local-histogram-from-a-local-vector");
                            log.push(format!("new L{}(local vector)", locals.len() - 1));
                        } else {
                            locals.push(Some(Loc::H(hist.local())));
                            log.push(format!("new L{}", locals.len() - 1));
                        }
                        pending.push(0);
                    }
                }
                13 => {
                    let live: Vec<usize> = locals.iter().enumerate().filter(|(_, l)| l.is_some()).map(|(i, _)| i).collect();
                    if !live.is_empty() {
                        let li = live[src.below(live.len())];
                        locals[li].as_mut().unwrap().flush();
                        shared_count += pending[li];
                        if pending[li] > 0 {
                            may_grow = true;
                        }
                        pending[li] = 0;
                        log.push(format!("L{}.flush", li));
                    }
                }
                14 => {
                    let live: Vec<usize> = locals.iter().enumerate().filter(|(_, l)| l.is_some()).map(|(i, _)| i).collect();
                    if !live.is_empty() {
                        let li = live[src.below(live.len())];
                        if matches!(locals[li], Some(Loc::V(_))) && vec_alive && src.chance(100) {
                            // removing the label values through the local vector drops (and so flushes) the cached local histogram and
                            // removes the child from the shared vector; the handle `hist` keeps reading that child
                            if let Some(Loc::V(v)) = locals[li].as_mut() {
                                if let Err(e) = v.remove_label_values(&["x"]) {
                                    return fail("valid-removal-refused", format!("{} ;; {}", e, log.join(" ")));
                                }
                            }
                            vec_alive = false;
                            locals[li] = None;
                            shared_count += pending[li];
                            if pending[li] > 0 {
                                may_grow = true;
                            }
                            pending[li] = 0;
                            rep.class("label-values-removed-through-the-local-vector");
                            log.push(format!("L{}.remove_label_values", li));
                            // other local vectors would create a NEW child "x" on their next first touch: none is left alive
                            for (lj, l) in locals.iter_mut().enumerate() {
                                if matches!(l, Some(Loc::V(_))) {
                                    *l = None;
                                    shared_count += pending[lj];
                                    if pending[lj] > 0 {
                                        may_grow = true;
                                    }
                                    pending[lj] = 0;
                                    log.push(format!("drop L{}", lj));
                                }
                            }
                        } else if src.chance(128) {
                            locals[li].as_mut().unwrap().hist().clear();
                            pending[li] = 0;
                            log.push(format!("L{}.clear", li));
                        } else {
                            locals[li] = None; // dropping a local histogram flushes it
                            shared_count += pending[li];
                            if pending[li] > 0 {
                                may_grow = true;
                            }
                            pending[li] = 0;
                            log.push(format!("drop L{}", li));
                        }
                    }
                }
                _ => {
                    log.push("collect".into());
                }
            }
            max_alive = max_alive.max(timers.len());
            // ---- oracle after every operation
            if let Some(v) = returned {
                if !(v.is_finite() && v >= 0.0) {
                    return fail("bad-duration", format!("step {}: returned duration {} ;; {}", step, v, log.join(" ")));
                }
            }
            let got = hist.get_sample_count();
            if got != shared_count {
                return fail(
                    "timer-count-mismatch",
                    format!("step {}: the shared histogram has {} observations, the model says {} ;; history: {}", step, got, shared_count, log.join(" ")),
                );
            }
            for (li, l) in locals.iter_mut().enumerate() {
                if let Some(l) = l {
                    let held = l.hist().get_sample_count();
                    if held != pending[li] {
                        return fail(
                            "local-pending-count-mismatch",
                            format!("step {}: local L{} holds {} pending observations, the model says {} ;; history: {}", step, li, held, pending[li], log.join(" ")),
                        );
                    }
                }
            }
            // each observation is counted exactly once in the buckets too
            {
                use prometheus::core::Metric;
                let m = hist.metric();
                let h = m.get_histogram();
                let b: Vec<u64> = h.get_bucket().iter().map(|b| b.cumulative_count()).collect();
                let buckets_ok = match cfg {
                    0 => b.is_empty(),
                    1 => b.len() == 1 && b[0] == 0,
                    8 | 9 => b.len() == bounds.len() && b[0] == 0 && b[b.len() - 1] == shared_count && b.windows(2).all(|w| w[0] <= w[1]),
                    _ => b.len() == 2 && b[0] == 0 && b[1] == shared_count,
                };
                if fine && sum_exact && buckets_ok {
                    // the one duration whose value is known: counted under every bound >= it and under no other
                    let v = returned.unwrap();
                    let want: Vec<u64> = bounds.iter().zip(&cum_before).map(|(ub, c)| c + (v <= *ub) as u64).collect();
                    if b != want {
                        let at = b.iter().zip(&want).position(|(x, y)| x != y).unwrap();
                        return fail(
                            "duration-counted-in-the-wrong-bucket",
                            format!(
                                "step {}: stop_and_record returned {} s, but the cumulative count of le={} went from {} to {} (expected {}) ;; history: {}",
                                step, v, bounds[at], cum_before[at], b[at], want[at], log.join(" ")
                            ),
                        );
                    }
                }
                if h.get_sample_count() != shared_count || !buckets_ok {
                    return fail(
                        "timer-bucket-count-mismatch",
                        format!(
                            "step {}: {} observations recorded but the collected histogram shows count={} and cumulative buckets le=-1: {}, le=MAX: {} (every duration is a finite number >= 0, so they must be 0 and {}) ;; history: {}",
                            step, shared_count, h.get_sample_count(), b.first().copied().unwrap_or(0), if b.len() >= 2 { b[b.len() - 1] } else { 0 }, shared_count, log.join(" ")
                        ),
                    );
                }
            }
            let sum_after = hist.get_sample_sum();
            if sum_exact {
                let v = returned.unwrap();
                if sum_after != sum_before + v {
                    return fail(
                        "recorded-duration-differs-from-returned",
                        format!("step {}: sum went from {} to {} but the returned duration is {} ;; {}", step, sum_before, sum_after, v, log.join(" ")),
                    );
                }
            } else if may_grow {
                if !(sum_after >= sum_before && sum_after.is_finite()) {
                    return fail("negative-duration-recorded", format!("step {}: sum went from {} to {} ;; {}", step, sum_before, sum_after, log.join(" ")));
                }
            } else if sum_after != sum_before {
                return fail("sum-changed-without-observation", format!("step {}: sum went from {} to {} ;; {}", step, sum_before, sum_after, log.join(" ")));
            }
        }
        // end of case: everything still alive is dropped -> records
        let n_alive = timers.len() as u64;
        drop(timers);
        shared_count += n_alive;
        for (li, l) in locals.iter_mut().enumerate() {
            if l.take().is_some() {
                shared_count += pending[li];
            }
        }
        if hist.get_sample_count() != shared_count {
            return fail(
                "timer-count-mismatch",
                format!("at the end (all timers and locals dropped): {} observations, model {} ;; history: {}", hist.get_sample_count(), shared_count, log.join(" ")),
            );
        }
        rep.nontrivial = max_alive >= 3 && out_of_order && discards >= 1 && cross >= 1;
        if cross > 0 {
            rep.class("cross-thread-end");
        }
        if discards > 0 {
            rep.class("with-discard");
        }
        if max_alive >= 3 {
            rep.class("3+-timers-alive");
        }
        if rep.want_sample {
            rep.sample = Some(log.join(" "));
        }
        Verdict::Pass
    }
}
