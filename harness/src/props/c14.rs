//! C14 — a gathered family never mixes metric types.

use std::collections::{BTreeMap, BTreeSet};

use prometheus::{Encoder, TextEncoder};

use crate::engine::{fail, Budget, Property, Report, Tier, Verdict};
use crate::ensure;
use crate::neutral::{neutral, NType, NValue};
use crate::props::c04::check_roundtrip;
use crate::scenario::{build, describe, gen_scenario, value_for_cfg, Scenario};
use crate::src::Src;

pub struct C14;

#[cfg(feature = "pb")]
fn payloads_present(m: &prometheus::proto::Metric) -> Vec<NType> {
    let mut v = vec![];
    if m.get_counter().is_some() {
        v.push(NType::Counter);
    }
    if m.get_gauge().is_some() {
        v.push(NType::Gauge);
    }
    if m.get_histogram().is_some() {
        v.push(NType::Histogram);
    }
    if m.get_summary().is_some() {
        v.push(NType::Summary);
    }
    if m.untyped.is_some() {
        v.push(NType::Untyped);
    }
    v
}

#[cfg(not(feature = "pb"))]
fn payloads_present(_m: &prometheus::proto::Metric) -> Vec<NType> {
    vec![]
}

fn check(s: &Scenario, order: &[usize]) -> Result<BTreeMap<String, NType>, Verdict> {
    let reg = match build(s, order) {
        Ok(r) => r,
        Err(e) => return Err(fail("valid-scenario-rejected", format!("{} ;; {}", e, describe(s)))),
    };
    check_registry(&s.effective(), &reg)
}

/// `reg` holds exactly the collectors of `s` (however it got there): gather it and judge every sample.
fn check_registry(s: &Scenario, reg: &prometheus::Registry) -> Result<BTreeMap<String, NType>, Verdict> {
    // real value of every sample, keyed by (unprefixed family name, sorted own labels)
    let mut real: BTreeMap<(String, Vec<(String, String)>), (NType, NValue)> = BTreeMap::new();
    let mut types_by_name: BTreeMap<String, BTreeSet<NType>> = BTreeMap::new();
    for c in &s.colls {
        types_by_name.entry(c.name.clone()).or_default().insert(c.kind.ntype());
        for (t, seed) in &c.children {
            let mut labels: Vec<(String, String)> = c.vars.iter().cloned().zip(t.iter().cloned()).collect();
            labels.extend(c.consts.iter().map(|(k, v)| (k.clone(), v.clone())));
            labels.sort();
            real.insert((c.name.clone(), labels), (c.kind.ntype(), value_for_cfg(c.kind, *seed, c.hist_cfg)));
        }
    }
    let fams = reg.gather();
    let mut types = BTreeMap::new();
    for mf in &fams {
        let nf = neutral(mf);
        let bare = match &s.prefix {
            Some(p) => nf.name[p.len() + 1..].to_string(),
            None => nf.name.clone(),
        };
        types.insert(bare.clone(), nf.ty);
        let mixed = types_by_name.get(&bare).map_or(false, |t| t.len() >= 2);
        let sig = |what: &str| if mixed { "mixed-kind-same-name".to_string() } else { what.to_string() };
        for (m, ns) in mf.get_metric().iter().zip(&nf.samples) {
            let common: BTreeSet<&String> = s.common.as_ref().map(|c| c.keys().collect()).unwrap_or_default();
            let mut own: Vec<(String, String)> = ns.labels.iter().filter(|(k, _)| !common.contains(k)).cloned().collect();
            own.sort();
            let Some((rty, rval)) = real.get(&(bare.clone(), own.clone())) else {
                return Err(fail("unknown-sample", format!("{} {:?} ;; {}", nf.name, ns.labels, describe(s))));
            };
            if cfg!(feature = "pb") {
                let present = payloads_present(m);
                if present != vec![nf.ty] {
                    return Err(fail(
                        sig("payload-kind-differs-from-family-type"),
                        format!(
                            "family {} is declared {:?} but sample {:?} carries payload(s) {:?} (it is a {:?}) ;; {}",
                            nf.name, nf.ty, ns.labels, present, rty, describe(s)
                        ),
                    ));
                }
            }
            if !ns.value.same(rval, false) {
                return Err(fail(
                    sig("sample-value-is-not-the-real-value"),
                    format!(
                        "family {} ({:?}): sample {:?} reads {:?} as the family type, but the metric's real value is {:?} ;; {}",
                        nf.name, nf.ty, ns.labels, ns.value, rval, describe(s)
                    ),
                ));
            }
        }
    }
    // the encoder prints what gather() returned (so, with the above, each sample's real value)
    let text = match TextEncoder::new().encode_to_string(&fams) {
        Ok(t) => t,
        Err(e) => return Err(fail("encode-error", e.to_string())),
    };
    let nfams: Vec<_> = fams.iter().map(neutral).collect();
    if let Err((sig, d)) = check_roundtrip(&nfams, &text) {
        return Err(fail(format!("text:{}", sig), d));
    }
    let _ = Encoder::format_type(&TextEncoder::new());
    Ok(types)
}

impl Property for C14 {
    fn id(&self) -> &'static str {
        "C14"
    }
    fn rule(&self) -> &'static str {
        "case = C07-style scenario (1-4 names x 1-3 collectors among 11 kinds, vectors with 0-6 children, prefix, common labels; in 17% of the scenarios \
         with two or more collectors, 2+ of them are registered as one or two composite collectors whose collect() returns the members' families in a generated order \
         unrelated to the order of desc()); in \
         ~15% of cases collectors of different kinds may share a name (same help and label names, different constant values), \
         otherwise that class is excluded by construction and counted. 6 builds under generated registration permutations and fresh \
         hash seeds. Oracle: every sample carries exactly the payload message of its family's declared type (protobuf build), reads \
         as the metric's real distinctive value, the text encoding round-trips to the same values, and each family's type is the same \
         in all 6 builds; in a third of the unmixed cases one name then changes hands inside a registry that has been gathered \
         (its collectors are unregistered and collectors of another kind registered under it) and is gathered and judged again. Non-trivial: >=2 collectors of different metric types registered and >=1 vector. Distinct = decoded choices."
    }
    fn assumptions(&self) -> Vec<&'static str> {
        vec!["payload presence is only observable in the protobuf-backed data model (this harness build)"]
    }
    fn budget(&self, tier: Tier) -> Budget {
        match tier {
            Tier::Quick => Budget { cases: 50000, min_len: 8, max_len: 300 },
            Tier::Thorough => Budget { cases: 1200000, min_len: 8, max_len: 400 },
        }
    }

    fn run(&self, src: &mut Src, rep: &mut Report) -> Verdict {
        let allow_mixed = src.chance(40);
        let s = gen_scenario(src, allow_mixed);
        if crate::scenario::collision_pair_blocks_registration(&s) {
            return Verdict::Discard("two metric names with equal 64-bit FNV-1a hash and equal constant-label values: the second registration is refused (known finding, see C15)");
        }
        if !allow_mixed {
            rep.excluded_known = true;
        }
        let se = s.effective();
        let mut by_name: BTreeMap<&str, BTreeSet<NType>> = BTreeMap::new();
        for c in &se.colls {
            by_name.entry(&c.name).or_default().insert(c.kind.ntype());
        }
        let mixed = by_name.values().any(|t| t.len() >= 2);
        if mixed {
            rep.class("mixed-kinds-under-one-name");
        }
        let all_types: BTreeSet<NType> = s.colls.iter().map(|c| c.kind.ntype()).collect();
        rep.nontrivial = all_types.len() >= 2 && s.colls.iter().any(|c| c.kind.is_vec());
        if rep.want_sample {
            rep.sample = Some(describe(&s));
        }
        let n = s.colls.len();
        let ident: Vec<usize> = (0..n).collect();
        let first = match check(&s, &ident) {
            Ok(t) => t,
            Err(v) => return v,
        };
        for r in 0..5 {
            let order = src.perm(n);
            let again = match check(&s, &order) {
                Ok(t) => t,
                Err(v) => return v,
            };
            ensure!(
                again == first,
                if mixed { "mixed-kind-same-name" } else { "family-type-not-deterministic" },
                "rebuild {} (registration order {:?}) declares types {:?}, the first build {:?} ;; {}",
                r, order, again, first, describe(&s)
            );
        }
        // a name changes hands: after a gather, every collector of one name is unregistered and collectors of ANOTHER kind
        // (same help, same label names, same constant-label values) are registered under it; the next gather must declare
        // and carry the new kind
        if !s.bundles.is_empty() {
            rep.class("composite-collector(families returned in another order than the descriptors)");
        }
        if s.bundles.iter().any(|b| b.nested) {
            rep.class("composite-collector-gathers-a-registry-of-its-own");
        }
        if !mixed && s.bundles.is_empty() && src.chance(90) {
            let names: Vec<&String> = by_name_owned(&s);
            let g = names[src.below(names.len())].clone();
            let old_kind = s.colls.iter().find(|c| c.name == g).unwrap().kind;
            let cands: Vec<crate::scenario::Kind> = crate::scenario::KINDS
                .iter()
                .copied()
                .filter(|k| k.is_vec() == old_kind.is_vec() && *k != crate::scenario::Kind::Pulling && k.ntype() != old_kind.ntype())
                .collect();
            if old_kind != crate::scenario::Kind::Pulling && !cands.is_empty() {
                let new_kind = cands[src.below(cands.len())];
                let reg = match build(&s, &ident) {
                    Ok(r) => r,
                    Err(e) => return fail("valid-scenario-rejected", format!("{} ;; {}", e, describe(&s))),
                };
                if let Err(v) = check_registry(&s, &reg) {
                    return v;
                }
                let mut s2 = s.clone();
                for (c_old, c_new) in s.colls.iter().zip(s2.colls.iter_mut()) {
                    if c_old.name != g {
                        continue;
                    }
                    let u = reg.unregister(crate::scenario::build_collector(c_old));
                    ensure!(u.is_ok(), "registered-collector-not-unregistered", "{:?} ;; {}", u, describe(&s));
                    c_new.kind = new_kind;
                    c_new.hist_cfg = 0;
                }
                for c_new in s2.colls.iter().filter(|c| c.name == g) {
                    let r = reg.register(crate::scenario::build_collector(c_new));
                    ensure!(r.is_ok(), "valid-registration-refused", "re-using name {:?} for a {:?} after unregistering the {:?}: {:?} ;; {}", g, new_kind, old_kind, r, describe(&s));
                }
                rep.class("name-re-used-by-another-kind-after-unregister");
                match check_registry(&s2, &reg) {
                    Ok(_) => {}
                    Err(Verdict::Fail { sig, detail }) => {
                        return Verdict::Fail { sig, detail: format!("after name {:?} changed hands from {:?} to {:?} in a registry that had been gathered before: {}", g, old_kind, new_kind, detail) }
                    }
                    Err(v) => return v,
                }
            }
        }
        Verdict::Pass
    }
}

fn by_name_owned(s: &Scenario) -> Vec<&String> {
    let mut v: Vec<&String> = s.colls.iter().map(|c| &c.name).collect();
    v.sort();
    v.dedup();
    v
}
