//! C13 — protobuf exposition decodes to the gathered state.

use prometheus::proto::{Metric, MetricFamily};
use prometheus::{Encoder, ProtobufEncoder};
use protobuf::EnumOrUnknown;

use crate::engine::{fail, Budget, Property, Report, Tier, Verdict};
use crate::ensure;
use crate::genfam::{gen_custom, gen_real, gen_text, GenOpts};
use crate::neutral::{to_lib, NType, NValue};
use crate::pbdecode::{stream, DBucket, DFamily, DHistogram, DLabel, DMetric, DQuantile, DSummary};
use crate::src::Src;

pub struct C13;

/// The input as seen through the generated public API (presence included).
fn expect_metric(m: &Metric) -> DMetric {
    DMetric {
        labels: m
            .label
            .iter()
            .map(|l| DLabel {
                name: if l.has_name() { Some(l.name().to_string()) } else { None },
                value: if l.has_value() { Some(l.value().to_string()) } else { None },
            })
            .collect(),
        gauge: m.gauge.as_ref().map(|g| if g.has_value() { Some(g.value().to_bits()) } else { None }),
        counter: m.counter.as_ref().map(|g| if g.has_value() { Some(g.value().to_bits()) } else { None }),
        untyped: m.untyped.as_ref().map(|g| if g.has_value() { Some(g.value().to_bits()) } else { None }),
        summary: m.summary.as_ref().map(|s| DSummary {
            count: if s.has_sample_count() { Some(s.sample_count()) } else { None },
            sum: if s.has_sample_sum() { Some(s.sample_sum().to_bits()) } else { None },
            quantiles: s
                .quantile
                .iter()
                .map(|q| DQuantile {
                    quantile: if q.has_quantile() { Some(q.quantile().to_bits()) } else { None },
                    value: if q.has_value() { Some(q.value().to_bits()) } else { None },
                })
                .collect(),
        }),
        histogram: m.histogram.as_ref().map(|h| DHistogram {
            count: if h.has_sample_count() { Some(h.sample_count()) } else { None },
            sum: if h.has_sample_sum() { Some(h.sample_sum().to_bits()) } else { None },
            buckets: h
                .bucket
                .iter()
                .map(|b| DBucket {
                    cumulative: if b.has_cumulative_count() { Some(b.cumulative_count()) } else { None },
                    upper: if b.has_upper_bound() { Some(b.upper_bound().to_bits()) } else { None },
                })
                .collect(),
        }),
        ts: if m.has_timestamp_ms() { Some(m.timestamp_ms()) } else { None },
    }
}

fn expect_family(mf: &MetricFamily) -> DFamily {
    DFamily {
        name: if mf.has_name() { Some(mf.name().to_string()) } else { None },
        help: if mf.has_help() { Some(mf.help().to_string()) } else { None },
        ty: mf.type_.map(|e| e.value() as i64 as u64),
        metrics: mf.metric.iter().map(expect_metric).collect(),
    }
}

fn normalise(f: &DFamily) -> DFamily {
    let z = |v: &Option<u64>| Some(v.unwrap_or(0));
    let zd = |v: &Option<u64>| Some(v.unwrap_or(0f64.to_bits()));
    DFamily {
        name: Some(f.name.clone().unwrap_or_default()),
        help: Some(f.help.clone().unwrap_or_default()),
        ty: z(&f.ty),
        metrics: f
            .metrics
            .iter()
            .map(|m| DMetric {
                labels: m.labels.iter().map(|l| DLabel { name: Some(l.name.clone().unwrap_or_default()), value: Some(l.value.clone().unwrap_or_default()) }).collect(),
                gauge: m.gauge.as_ref().map(zd),
                counter: m.counter.as_ref().map(zd),
                untyped: m.untyped.as_ref().map(zd),
                summary: m.summary.as_ref().map(|s| DSummary {
                    count: z(&s.count),
                    sum: zd(&s.sum),
                    quantiles: s.quantiles.iter().map(|q| DQuantile { quantile: zd(&q.quantile), value: zd(&q.value) }).collect(),
                }),
                histogram: m.histogram.as_ref().map(|h| DHistogram {
                    count: z(&h.count),
                    sum: zd(&h.sum),
                    buckets: h.buckets.iter().map(|b| DBucket { cumulative: z(&b.cumulative), upper: zd(&b.upper) }).collect(),
                }),
                ts: Some(m.ts.unwrap_or(0)),
            })
            .collect(),
    }
}

/// Knock out / perturb optional fields through the public API of the generated structs.
fn perturb(src: &mut Src, mf: &mut MetricFamily, rep: &mut Report) {
    if src.chance(20) {
        mf.clear_help();
        rep.class("unset:help");
    }
    if src.chance(12) {
        mf.clear_type_();
        rep.class("unset:type");
    }
    if src.chance(8) {
        mf.type_ = Some(EnumOrUnknown::from_i32(*src.pick(&[9, -1, 5])));
        rep.class("unknown-enum-value");
    }
    for m in mf.metric.iter_mut() {
        if src.chance(16) {
            m.set_timestamp_ms(0); // present, zero
            rep.class("timestamp-present-zero");
        }
        if src.chance(10) {
            if let Some(l) = m.label.first_mut() {
                l.clear_value();
                rep.class("unset:label-value");
            }
        }
        if src.chance(10) {
            if let Some(g) = m.gauge.as_mut() {
                g.clear_value();
                rep.class("unset:payload-value");
            }
            if let Some(g) = m.counter.as_mut() {
                g.clear_value();
                rep.class("unset:payload-value");
            }
            if let Some(h) = m.histogram.as_mut() {
                h.clear_sample_sum();
                if let Some(b) = h.bucket.first_mut() {
                    b.clear_upper_bound();
                }
                rep.class("unset:payload-value");
            }
        }
        if src.chance(8) {
            // two payloads at once / an untyped payload: what a careless custom collector supplies
            let mut u = prometheus::proto::Untyped::default();
            #[allow(deprecated)]
            u.set_value(src.f64v(&[]));
            m.untyped = Some(u).into();
            rep.class("untyped-payload");
        }
    }
}

/// A family name out of mixed-width fragments, repeated so that its byte length lands anywhere up to a few hundred bytes (or,
/// rarely, far beyond): nothing in the wire format or in the encoder restricts names.
fn wild_name(src: &mut Src) -> String {
    let unit = src.text(crate::pools::TEXT_FRAGS, 3) + ["", "n", "é", "日", "😀"][src.below(5)];
    let mut name = unit.repeat(1 + src.below(40));
    name.push_str(&gen_text(src));
    name
}

impl Property for C13 {
    fn id(&self) -> &'static str {
        "C13"
    }
    fn rule(&self) -> &'static str {
        "case = 0-6 families built through the public setters (all five MetricTypes, 0-5 samples, arbitrary Unicode help / label \
         values, every f64 class by bit pattern incl. NaN payloads, counts over u64, timestamps incl. i64 extremes) with optional \
         fields knocked out or perturbed through the generated API (help, type, label value, payload value, present-zero timestamp, \
         unknown enum value, extra untyped payload), or families gathered from real metrics. Oracle: hand-written proto2 wire \
         decoder (schema transcribed from proto_model.proto): the stream is consumed exactly as length-delimited MetricFamily \
         messages, no unknown fields or wrong wire types, valid UTF-8, and the decoded tree equals the input read through the \
         public getters incl. presence; a family without name or samples makes encode return Err. Non-trivial: >=2 families, or a \
         histogram/summary, or a non-ASCII string, or a non-finite value. Distinct = decoded choices."
    }
    fn assumptions(&self) -> Vec<&'static str> {
        vec!["field order inside a message is not constrained; a duplicated optional field is reported (a faithful encoder never emits one)"]
    }
    fn budget(&self, tier: Tier) -> Budget {
        match tier {
            Tier::Quick => Budget { cases: 500000, min_len: 4, max_len: 400 },
            Tier::Thorough => Budget { cases: 10000000, min_len: 4, max_len: 700 },
        }
    }

    fn run(&self, src: &mut Src, rep: &mut Report) -> Verdict {
        let real = src.chance(80);
        let nontrivial;
        let lib: Vec<MetricFamily> = if real {
            rep.class("source:gathered-from-real-metrics");
            let l = gen_real(src);
            nontrivial = l.len() >= 2;
            l
        } else {
            rep.class("source:custom-families");
            let n = gen_custom(src, &GenOpts { allow_untyped: true, allow_empty_family: true, max_families: 6 });
            let odd_str = |s: &str| !s.is_ascii();
            let odd_f = |v: f64| !v.is_finite();
            nontrivial = n.len() >= 2
                || n.iter().any(|f| {
                    matches!(f.ty, NType::Histogram | NType::Summary)
                        || odd_str(&f.help)
                        || f.samples.iter().any(|s| {
                            s.labels.iter().any(|(_, v)| odd_str(v))
                                || match &s.value {
                                    NValue::Counter(v) | NValue::Gauge(v) => odd_f(*v),
                                    _ => false,
                                }
                        })
                });
            let mut l: Vec<MetricFamily> = n.iter().map(to_lib).collect();
            for mf in l.iter_mut() {
                if src.chance(15) {
                    mf.clear_name();
                    rep.class("unset:name");
                } else if src.chance(10) {
                    mf.set_name(String::new());
                    rep.class("empty-name");
                } else if src.chance(50) {
                    // the wire format carries any string as a name (a custom collector decides it)
                    mf.set_name(wild_name(src));
                    rep.class("name:arbitrary-unicode");
                }
                perturb(src, mf, rep);
            }
            l
        };
        // message sizes at the varint boundaries of the length prefix (127/128, 16383/16384): pad the help text of one
        // family so that its serialized size lands exactly on a generated target around a boundary
        let mut lib = lib;
        if !lib.is_empty() && src.chance(40) {
            use protobuf::Message;
            let target = [127usize, 128, 129, 16383, 16384, 16385, 255, 256][src.below(8)] + src.below(3) - 1;
            let k = src.below(lib.len());
            for _ in 0..3 {
                let cur = lib[k].compute_size() as usize;
                if cur == target {
                    break;
                }
                let mut h = lib[k].help().to_string();
                if cur < target {
                    h.push_str(&"p".repeat(target - cur));
                } else {
                    let cut = (cur - target).min(h.len());
                    let mut n = h.len() - cut;
                    while n > 0 && !h.is_char_boundary(n) {
                        n -= 1;
                    }
                    h.truncate(n);
                }
                lib[k].set_help(h);
            }
            rep.class("message-size-at-varint-boundary");
        }
        let want: Vec<DFamily> = lib.iter().map(expect_family).collect();
        let must_fail = want.iter().any(|f| f.name.as_deref().unwrap_or("").is_empty() || f.metrics.is_empty());
        // a call that fails part-way (a refused family after valid ones, or a writer that gives up) must not
        // influence what a later successful call on the same thread writes
        if !must_fail && !lib.is_empty() && src.chance(50) {
            let mut poisoned = lib.clone();
            let mut bad = MetricFamily::default();
            bad.set_name(if src.chance(128) { "refused_family_without_samples".into() } else { wild_name(src) + "r" });
            poisoned.push(bad);
            let mut sink = Vec::new();
            let r0 = ProtobufEncoder::new().encode(&poisoned, &mut sink);
            ensure!(r0.is_err(), "nameless-or-empty-family-accepted", "a batch ending in a family without samples was accepted");
            struct Full;
            impl std::io::Write for Full {
                fn write(&mut self, _: &[u8]) -> std::io::Result<usize> {
                    Err(std::io::Error::new(std::io::ErrorKind::Other, "full"))
                }
                fn flush(&mut self) -> std::io::Result<()> {
                    Ok(())
                }
            }
            let r1 = ProtobufEncoder::new().encode(&lib, &mut Full);
            ensure!(r1.is_err(), "writer-error-swallowed", "encode into a writer that refuses every write returned Ok");
            rep.class("after-a-failed-encode-on-this-thread");
        }
        let mut buf = Vec::new();
        let r = ProtobufEncoder::new().encode(&lib, &mut buf);
        if must_fail {
            ensure!(r.is_err(), "nameless-or-empty-family-accepted", "encode returned Ok for {:?}", want.iter().map(|f| (&f.name, f.metrics.len())).collect::<Vec<_>>());
            rep.class("refused-family");
            rep.nontrivial = nontrivial;
            if rep.want_sample {
                rep.sample = Some(format!("{:?} -> Err", want.iter().map(|f| (&f.name, f.metrics.len())).collect::<Vec<_>>()));
            }
            return Verdict::Pass;
        }
        if let Err(e) = r {
            return fail("encode-error", format!("{} ;; {:?}", e, want));
        }
        // a writer that takes only part of what it is offered must still receive every byte
        if src.chance(50) {
            let max = [1usize, 2, 3, 7, 64][src.below(5)];
            let mut w = crate::iohelp::ShortWriter { max, vectored: src.chance(128), got: vec![], calls: 0 };
            let r = ProtobufEncoder::new().encode(&lib, &mut w);
            ensure!(r.is_ok() && w.got == buf, "bytes-lost-on-short-writes", "a writer accepting at most {} bytes per call got {:?} ({:?}) instead of {:?}", max, w.got, r, buf);
            rep.class("short-writes");
        }
        // a peer that stalls once in the middle (WouldBlock), or a signal that interrupts one write (Interrupted, which write_all retries
        // by contract): either the error is reported or every byte arrives exactly once
        if src.chance(50) && !buf.is_empty() {
            let accept = src.below(buf.len() + 1);
            let kind = if src.chance(128) { std::io::ErrorKind::WouldBlock } else { std::io::ErrorKind::Interrupted };
            let mut w = crate::iohelp::StallWriter { accept, kind, stalled: false, got: vec![] };
            let r = ProtobufEncoder::new().encode(&lib, &mut w);
            ensure!(
                r.is_err() || w.got == buf,
                "stream-corrupted-after-a-stalled-write",
                "a writer that answered {:?} once after {} bytes: encode returned {:?} and the writer holds {:?} instead of {:?}",
                kind, accept, r, w.got, buf
            );
            rep.class("writer-stalls-once");
        }
        let got = match stream(&buf) {
            Ok(g) => g,
            Err(e) => return fail("undecodable-stream", format!("{} ;; bytes={:?} ;; input={:?}", e, buf, want)),
        };
        ensure!(got.len() == want.len(), "message-count-differs", "{} messages for {} families ;; bytes={:?}", got.len(), want.len(), buf);
        for (i, (g, w)) in got.iter().zip(&want).enumerate() {
            // proto2 scalar fields: an absent field reads as its default, so "absent" and "present with the default
            // value" describe the same family; which payload *message* is present stays significant
            let (g, w) = (&normalise(g), &normalise(w));
            if g != w {
                let sig = if g.name != w.name || g.help != w.help || g.ty != w.ty {
                    "family-header-differs"
                } else if g.metrics.len() != w.metrics.len() {
                    "metric-count-differs"
                } else {
                    "metric-differs"
                };
                return fail(sig, format!("family #{}: decoded {:?} but the input is {:?}", i, g, w));
            }
        }
        if want.is_empty() {
            ensure!(buf.is_empty(), "bytes-for-no-families", "{:?}", buf);
        }
        rep.nontrivial = nontrivial;
        if rep.want_sample {
            rep.sample = Some(format!("{:?} => {} bytes", want, buf.len()));
        }
        Verdict::Pass
    }
}
