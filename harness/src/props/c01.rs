//! C01 — counter increments are never lost and never go backwards (scheduler).

use prometheus::core::Collector;
use prometheus::{Counter, CounterVec, IntCounter, IntCounterVec, Opts, Registry};

use crate::engine::{fail, Budget, Property, Report, Tier, Verdict};
use crate::neutral::{neutral_all, NValue};
use crate::sched::{run, ExecVerdict, OpFn};
use crate::schedsrc::make_chooser;
use crate::src::Src;
use crate::wgl::{linearize, HOp, Model};

pub struct C01;

#[derive(Clone, Debug, PartialEq)]
pub enum COp {
    /// inc_by(2^bit)
    IncBy(u32),
    /// inc() (= 2^0)
    Inc,
    /// local counter: inc_by each bit, then flush
    LocalFlush(Vec<u32>),
    Get,
    Collect,
    Gather,
    Reset,
    /// persistent local counter `slot` (= thread * 2 + handle): inc_by(2^bit) on the local handle, nothing shared changes
    LInc { slot: usize, bit: u32 },
    /// flush local handle `slot`: everything pending on it takes effect at once
    LFlush { slot: usize },
    /// clone local handle `from` into `to`: the clone starts with nothing pending
    LClone { from: usize, to: usize },
    /// local handle's own get(): the pending amount
    LGet { slot: usize },
    /// vector-child programs: obtain the handle inside the thread (`with_label_values`), so that
    /// simultaneous first requests race
    Acquire,
}

#[derive(Clone, PartialEq, Eq, Hash)]
struct CModel(u64, [u64; 8]);

impl Model for CModel {
    type Op = COp;
    type Res = Option<u64>;
    fn apply(&mut self, op: &COp) -> Option<u64> {
        match op {
            COp::IncBy(b) => self.0 += 1u64 << b,
            COp::Inc => self.0 += 1,
            COp::LocalFlush(bits) => self.0 += bits.iter().map(|b| 1u64 << b).sum::<u64>(),
            COp::Reset => self.0 = 0,
            COp::Get | COp::Collect | COp::Gather => return Some(self.0),
            COp::Acquire => {}
            COp::LInc { slot, bit } => self.1[*slot] += 1u64 << bit,
            COp::LFlush { slot } => {
                self.0 += self.1[*slot];
                self.1[*slot] = 0;
            }
            COp::LClone { to, .. } => self.1[*to] = 0,
            COp::LGet { slot } => return Some(self.1[*slot]),
        }
        None
    }
}

enum LCtr {
    F(prometheus::local::LocalCounter),
    I(prometheus::local::LocalIntCounter),
}

#[derive(Clone)]
enum Ctr {
    F(Counter),
    I(IntCounter),
}

#[derive(Clone)]
enum VecK {
    F(CounterVec),
    I(IntCounterVec),
}

#[derive(Clone)]
struct Sys {
    /// the handle used by the final (main-thread) reads and, unless `lazy`, by every thread
    c: Ctr,
    /// lazy mode: every thread obtains its own handle from the vector inside the thread
    lazy: Option<VecK>,
    mine: Vec<std::sync::Arc<std::sync::Mutex<Option<Ctr>>>>,
    /// the label value of the vector child, and whether odd-numbered threads ask for it through the map form (`with`)
    label: &'static str,
    mixed_forms: bool,
    /// float counters only: every amount is multiplied by this power of two (1 = off). Tiny (subnormal, below f64::EPSILON)
    /// and huge amounts stay exactly representable, so the same bit-set oracle applies; reads are divided by it again
    scale: f64,
    /// persistent local handles, by slot
    locals: std::sync::Arc<Vec<std::sync::Mutex<Option<LCtr>>>>,
    /// what `collect` is called on (the counter itself or the vector it is a child of)
    /// None: collect is called on the one handle itself (single-handle programs)
    coll: Option<std::sync::Arc<dyn Collector>>,
    reg: Registry,
}

fn value_in(fams: &[prometheus::proto::MetricFamily], scale: f64) -> u64 {
    let n = neutral_all(fams);
    let mut total = None;
    for f in &n {
        if f.name == "c" {
            for s in &f.samples {
                if let NValue::Counter(v) = s.value {
                    total = Some((v / scale) as u64);
                }
            }
        }
    }
    total.unwrap_or(u64::MAX)
}

impl Sys {
    fn handle(&self, thread: usize) -> Ctr {
        match &self.lazy {
            None => self.c.clone(),
            Some(v) => {
                let mut g = self.mine[thread].lock().unwrap();
                if g.is_none() {
                    let by_map = self.mixed_forms && thread % 2 == 1;
                    let map: std::collections::HashMap<&str, &str> = [("l", self.label)].into_iter().collect();
                    *g = Some(match v {
                        VecK::F(v) if by_map => Ctr::F(v.with(&map)),
                        VecK::I(v) if by_map => Ctr::I(v.with(&map)),
                        VecK::F(v) => Ctr::F(v.with_label_values(&[self.label])),
                        VecK::I(v) => Ctr::I(v.with_label_values(&[self.label])),
                    });
                }
                g.clone().unwrap()
            }
        }
    }
    fn exec(&self, thread: usize, op: &COp) -> Option<u64> {
        // (no clone of the handle is made where the program shares ONE handle by reference)
        let owned;
        let h: &Ctr = match &self.lazy {
            None => &self.c,
            Some(_) => {
                owned = self.handle(thread);
                &owned
            }
        };
        match (op, h) {
            (COp::Acquire, _) => {}
            (COp::LInc { slot, bit }, _) => {
                let mut g = self.locals[*slot].lock().unwrap();
                if g.is_none() {
                    *g = Some(match h {
                        Ctr::F(c) => LCtr::F(c.local()),
                        Ctr::I(c) => LCtr::I(c.local()),
                    });
                }
                match g.as_ref().unwrap() {
                    LCtr::F(l) => l.inc_by((1u64 << bit) as f64 * self.scale),
                    LCtr::I(l) => l.inc_by(1u64 << bit),
                }
            }
            (COp::LFlush { slot }, _) => match self.locals[*slot].lock().unwrap().as_ref() {
                Some(LCtr::F(l)) => l.flush(),
                Some(LCtr::I(l)) => l.flush(),
                None => {}
            },
            (COp::LClone { from, to }, _) => {
                let c = match self.locals[*from].lock().unwrap().as_ref() {
                    Some(LCtr::F(l)) => Some(LCtr::F(l.clone())),
                    Some(LCtr::I(l)) => Some(LCtr::I(l.clone())),
                    None => None,
                };
                *self.locals[*to].lock().unwrap() = c;
            }
            (COp::LGet { slot }, _) => {
                return Some(match self.locals[*slot].lock().unwrap().as_ref() {
                    Some(LCtr::F(l)) => (l.get() / self.scale) as u64,
                    Some(LCtr::I(l)) => l.get(),
                    None => 0,
                })
            }
            (COp::IncBy(b), Ctr::F(c)) => c.inc_by((1u64 << b) as f64 * self.scale),
            (COp::IncBy(b), Ctr::I(c)) => c.inc_by(1u64 << b),
            (COp::Inc, Ctr::F(c)) => c.inc(),
            (COp::Inc, Ctr::I(c)) => c.inc(),
            (COp::LocalFlush(bits), Ctr::F(c)) => {
                let l = c.local();
                for b in bits {
                    l.inc_by((1u64 << b) as f64 * self.scale);
                }
                l.flush();
            }
            (COp::LocalFlush(bits), Ctr::I(c)) => {
                let l = c.local();
                for b in bits {
                    l.inc_by(1u64 << b);
                }
                l.flush();
            }
            (COp::Reset, Ctr::F(c)) => c.reset(),
            (COp::Reset, Ctr::I(c)) => c.reset(),
            (COp::Get, Ctr::F(c)) => return Some((c.get() / self.scale) as u64),
            (COp::Get, Ctr::I(c)) => return Some(c.get()),
            (COp::Collect, h) => {
                let fams = match (&self.coll, h) {
                    (Some(c), _) => c.collect(),
                    (None, Ctr::F(c)) => c.collect(),
                    (None, Ctr::I(c)) => c.collect(),
                };
                return Some(value_in(&fams, self.scale));
            }
            (COp::Gather, _) => return Some(value_in(&self.reg.gather(), self.scale)),
        }
        None
    }
}

impl Property for C01 {
    fn id(&self) -> &'static str {
        "C01"
    }
    fn rule(&self) -> &'static str {
        "case = one shared Counter or IntCounter (standalone and registered, standalone as ONE unregistered handle shared by reference, or a CounterVec/IntCounterVec child - three in seven with a non-ASCII label value, half of them requested by odd-numbered threads through with(map) and by the others through with_label_values), 2-3 threads x 1-5 \
         operations from inc_by(2^i) with a unique bit per increment, inc(), get, Collector::collect, Registry::gather, a local \
         counter batch followed by flush (float counters, 15%: all amounts scaled by 2^-1074 / 2^-1060 / 2^-80 / 2^-30 / 2^900), \
         persistent local handles (35% of programs: inc_by on the handle, flush, clone of the handle \
         while an amount is pending, the handle's own get; everything still pending is flushed before the thread ends), reset (<=20% \
         of programs), and a schedule (walk / PCT / window / explicit pre-emption-bounded path) with up to 3 injected spurious \
         compare-exchange failures; after the generated tier, for a sample of small generated programs EVERY schedule with at most 2 \
         (thorough: 3) pre-emptions is enumerated and judged by the same oracle. Oracles: exhaustive linearizability search; for reset-free programs every read decodes \
         to a set of increments that contains all increments completed before the read began, none started after it returned, and \
         grows along real-time-ordered reads; after all threads finished value = sum of all increments = collect() = gather(). \
         Non-trivial: a thread was pre-empted between two atomic steps of one increment/flush while >=2 threads touched the \
         counter. Distinct = decoded choices."
    }
    fn assumptions(&self) -> Vec<&'static str> {
        vec![
            "executions are sequentially consistent interleavings of the hooked atomic / lock operations",
            "increments are distinct powers of two below 2^50, exact in f64 and u64, so a value decodes uniquely into the set of increments it contains",
        ]
    }
    fn budget(&self, tier: Tier) -> Budget {
        match tier {
            Tier::Quick => Budget { cases: 40000, min_len: 8, max_len: 200 },
            Tier::Thorough => Budget { cases: 800000, min_len: 8, max_len: 260 },
        }
    }

    fn post(&self, tier: Tier, seed: u64, stats: &mut crate::engine::Stats) -> Result<(), (String, String, Vec<u8>)> {
        crate::exhaust::bounded_enumeration(self, tier, seed, stats)?;
        crate::freerun::free_runs(self, tier, seed, stats)
    }

    fn run(&self, src: &mut Src, rep: &mut Report) -> Verdict {
        let float = src.chance(160);
        let as_child = src.chance(100);
        let reg = Registry::new();
        // a third of the standalone programs use ONE handle, shared by reference between the threads: it is not registered and
        // no clone of it exists anywhere (gather is replaced by collect on the handle itself)
        let single_handle = !as_child && src.chance(85);
        let sys = match (float, as_child) {
            (true, false) if single_handle => Sys { c: Ctr::F(Counter::new("c", "h").unwrap()), lazy: None, mine: vec![], label: "x", mixed_forms: false, scale: 1.0, locals: Default::default(), coll: None, reg },
            (false, false) if single_handle => Sys { c: Ctr::I(IntCounter::new("c", "h").unwrap()), lazy: None, mine: vec![], label: "x", mixed_forms: false, scale: 1.0, locals: Default::default(), coll: None, reg },
            (true, false) => {
                let c = Counter::new("c", "h").unwrap();
                reg.register(Box::new(c.clone())).unwrap();
                Sys { c: Ctr::F(c.clone()), lazy: None, mine: vec![], label: "x", mixed_forms: false, scale: 1.0, locals: Default::default(), coll: Some(std::sync::Arc::new(c)), reg }
            }
            (false, false) => {
                let c = IntCounter::new("c", "h").unwrap();
                reg.register(Box::new(c.clone())).unwrap();
                Sys { c: Ctr::I(c.clone()), lazy: None, mine: vec![], label: "x", mixed_forms: false, scale: 1.0, locals: Default::default(), coll: Some(std::sync::Arc::new(c)), reg }
            }
            (true, true) => {
                let v = CounterVec::new(Opts::new("c", "h"), &["l"]).unwrap();
                reg.register(Box::new(v.clone())).unwrap();
                // placeholder handle; replaced after the run in lazy mode
                Sys { c: Ctr::F(Counter::new("placeholder", "h").unwrap()), lazy: Some(VecK::F(v.clone())), mine: vec![], label: "x", mixed_forms: false, scale: 1.0, locals: Default::default(), coll: Some(std::sync::Arc::new(v)), reg }
            }
            (false, true) => {
                let v = IntCounterVec::new(Opts::new("c", "h"), &["l"]).unwrap();
                reg.register(Box::new(v.clone())).unwrap();
                Sys { c: Ctr::I(IntCounter::new("placeholder", "h").unwrap()), lazy: Some(VecK::I(v.clone())), mine: vec![], label: "x", mixed_forms: false, scale: 1.0, locals: Default::default(), coll: Some(std::sync::Arc::new(v)), reg }
            }
        };
        let mut sys = sys;
        let lazy_first_touch = as_child && src.chance(150);
        if as_child {
            // the child's label value (a third: not ASCII), and whether the threads ask for the child in both forms
            sys.label = ["x", "x", "x", "x", "é", "日本", "ÿ\u{0}"][src.below(7)];
            sys.mixed_forms = src.chance(128);
            if sys.label != "x" {
                rep.class("vector-child-with-non-ascii-label-value");
            }
        }
        if as_child && !lazy_first_touch {
            // the child exists before the threads start and all share one handle
            sys.c = match sys.lazy.take().unwrap() {
                VecK::F(v) => Ctr::F(v.with_label_values(&[sys.label])),
                VecK::I(v) => Ctr::I(v.with_label_values(&[sys.label])),
            };
        }
        let with_reset = src.chance(48);
        let mut use_inc = src.chance(64);
        if float && src.chance(40) {
            // 2^-1074 (bit 0 = the smallest subnormal), 2^-1060, 2^-80 (all amounts below f64::EPSILON), 2^-30, 2^900
            // ... and 2^60 / 2^61: whole numbers whose sums pass 2^63 and 2^64 after a few increments
            let e = [-1074i32, -1060, -80, -30, 900, 60, 61][src.below(7)];
            sys.scale = if e < -1022 { f64::from_bits(1u64 << (e + 1074)) } else { 2f64.powi(e) };
            use_inc = false;
            rep.class("amounts-scaled(tiny/huge powers of two)");
        }
        let nthreads = 2 + src.below(2);
        let mut next_bit = if use_inc { 1 } else { 0 };
        let mut inc_used = false;
        let mut prog: Vec<Vec<COp>> = vec![];
        let persistent_locals = src.chance(90);
        for t in 0..nthreads {
            let n = 1 + src.below(5);
            let mut ops = vec![];
            // persistent local handles of this thread: 0 = none yet, 1 = one, 2 = one and its clone
            let mut nlocal = 0usize;
            for _ in 0..n {
                let k = src.below(if persistent_locals { 22 } else { 16 });
                let op = match k {
                    16..=18 | 19 if k <= 18 || nlocal != 1 => {
                        let h = if nlocal == 2 { src.below(2) } else { 0 };
                        nlocal = nlocal.max(1);
                        next_bit += 1;
                        COp::LInc { slot: t * 2 + h, bit: next_bit - 1 }
                    }
                    19 => {
                        nlocal = 2;
                        COp::LClone { from: t * 2, to: t * 2 + 1 }
                    }
                    20 => COp::LFlush { slot: t * 2 + if nlocal == 2 { src.below(2) } else { 0 } },
                    21 => COp::LGet { slot: t * 2 + if nlocal == 2 { src.below(2) } else { 0 } },
                    0..=5 => {
                        next_bit += 1;
                        COp::IncBy(next_bit - 1)
                    }
                    6 if use_inc && !inc_used => {
                        inc_used = true;
                        COp::Inc
                    }
                    6 | 7 => {
                        let m = 1 + src.below(3);
                        let bits: Vec<u32> = (0..m)
                            .map(|_| {
                                next_bit += 1;
                                next_bit - 1
                            })
                            .collect();
                        COp::LocalFlush(bits)
                    }
                    8 if with_reset => COp::Reset,
                    8..=11 => COp::Get,
                    12 | 13 => COp::Collect,
                    _ if single_handle => COp::Collect,
                    _ => COp::Gather,
                };
                ops.push(op);
            }
            // whatever is still pending on a local handle is flushed before the thread ends
            for h in 0..nlocal {
                ops.push(COp::LFlush { slot: t * 2 + h });
            }
            if lazy_first_touch {
                ops.insert(0, COp::Acquire);
            }
            prog.push(ops);
        }
        sys.locals = std::sync::Arc::new((0..8).map(|_| std::sync::Mutex::new(None)).collect());
        sys.mine = (0..nthreads + 1).map(|_| std::sync::Arc::new(std::sync::Mutex::new(None))).collect();
        let total: usize = prog.iter().map(|p| p.len()).sum();
        let threads: Vec<Vec<OpFn<Option<u64>>>> = prog
            .iter()
            .enumerate()
            .map(|(t, ops)| {
                ops.iter()
                    .map(|op| {
                        let s = &sys;
                        let op = op.clone();
                        Box::new(move || s.exec(t, &op)) as OpFn<Option<u64>>
                    })
                    .collect()
            })
            .collect();
        let mut chooser = make_chooser(src, nthreads, total * 6 + 4, rep);
        let exec = run(threads, chooser.as_mut(), 12_000);
        drop(chooser);
        match &exec.verdict {
            ExecVerdict::Completed => {}
            ExecVerdict::StepLimit | ExecVerdict::Halted => return Verdict::Discard("step limit"),
            ExecVerdict::Panic(m) => return fail(format!("panic:{}", m.chars().take(40).collect::<String>()), format!("{} ;; program {:?}", m, prog)),
            ExecVerdict::Stuck { spinners, blocked } => {
                return fail("stuck", format!("no thread can make progress (spinning {:?}, blocked {:?}) ;; program {:?}", spinners, blocked, prog))
            }
        }
        let mut hist: Vec<HOp<COp, Option<u64>>> = exec
            .ops
            .iter()
            .map(|o| HOp { op: prog[o.thread][o.idx].clone(), res: o.result.unwrap(), invoke: o.invoke, response: o.response.unwrap() })
            .collect();
        // what each operation adds to the shared counter (a flush adds what its handle had pending)
        let mut effect_of: Vec<Vec<u64>> = vec![];
        for ops in &prog {
            let mut pend = [0u64; 8];
            effect_of.push(
                ops.iter()
                    .map(|op| match op {
                        COp::IncBy(b) => 1u64 << b,
                        COp::Inc => 1,
                        COp::LocalFlush(bits) => bits.iter().map(|b| 1u64 << b).sum(),
                        COp::LInc { slot, bit } => {
                            pend[*slot] += 1u64 << bit;
                            0
                        }
                        COp::LClone { to, .. } => {
                            pend[*to] = 0;
                            0
                        }
                        COp::LFlush { slot } => std::mem::take(&mut pend[*slot]),
                        _ => 0,
                    })
                    .collect(),
            );
        }
        let mut effects: Vec<u64> = exec.ops.iter().map(|o| effect_of[o.thread][o.idx]).collect();
        effects.push(0);
        let last = exec.trace.len() + 1;
        // final reads by the main thread (slot `nthreads`): in lazy mode through a fresh request to the vector
        let fin_get = sys.exec(nthreads, &COp::Get);
        let fin_collect = sys.exec(nthreads, &COp::Collect);
        let fin_gather = if single_handle { fin_collect } else { sys.exec(nthreads, &COp::Gather) };
        hist.push(HOp { op: COp::Get, res: fin_get, invoke: last, response: last + 1 });
        let describe = |hist: &Vec<HOp<COp, Option<u64>>>| {
            let h: Vec<String> = hist
                .iter()
                .enumerate()
                .map(|(i, h)| format!("#{} {:?} -> {:?} [{},{}]", i, h.op, h.res.map(|v| format!("{:#b}", v)), h.invoke, h.response))
                .collect();
            format!("{} counter{}, history {}", if float { "float" } else { "int" }, if as_child { " (vector child)" } else { "" }, h.join("; "))
        };
        if fin_collect != fin_get || fin_gather != fin_get {
            return fail("final-reads-disagree", format!("get={:?} collect={:?} gather={:?} ;; {}", fin_get, fin_collect, fin_gather, describe(&hist)));
        }
        if linearize(&CModel(0, [0; 8]), &hist).is_none() {
            return fail("not-linearizable", describe(&hist));
        }
        if !prog.iter().any(|p| p.contains(&COp::Reset)) {
            // the subset rules of the statement, checked literally
            let all: u64 = effects.iter().sum();
            if fin_get != Some(all) {
                return fail("final-value-not-sum", format!("final {:?} but the increments sum to {:#b} ;; {}", fin_get.map(|v| format!("{:#b}", v)), all, describe(&hist)));
            }
            let reads: Vec<&HOp<COp, Option<u64>>> = hist.iter().filter(|h| matches!(h.op, COp::Get | COp::Collect | COp::Gather)).collect();
            for r in &reads {
                let v = r.res.unwrap();
                if v & !all != 0 {
                    return fail("read-not-a-subset", format!("read {:#b} contains bits no increment has ;; {}", v, describe(&hist)));
                }
                for (hi, h) in hist.iter().enumerate() {
                    let m = effects[hi];
                    if m == 0 {
                        continue;
                    }
                    // an increment is all-or-nothing
                    if v & m != 0 && v & m != m {
                        return fail("batch-torn", format!("read {:#b} contains part of {:?} ;; {}", v, h.op, describe(&hist)));
                    }
                    if h.response < r.invoke && v & m != m {
                        return fail("completed-increment-missing", format!("read {:#b} at [{},{}] misses {:?} which completed at {} ;; {}", v, r.invoke, r.response, h.op, h.response, describe(&hist)));
                    }
                    if h.invoke > r.response && v & m != 0 {
                        return fail("future-increment-visible", format!("read {:#b} at [{},{}] contains {:?} which started at {} ;; {}", v, r.invoke, r.response, h.op, h.invoke, describe(&hist)));
                    }
                }
                for r2 in &reads {
                    if r.response < r2.invoke && r.res.unwrap() & !r2.res.unwrap() != 0 {
                        return fail("reads-went-backwards", format!("read {:#b} then later read {:#b} ;; {}", r.res.unwrap(), r2.res.unwrap(), describe(&hist)));
                    }
                }
            }
        }
        let touching = prog.iter().filter(|p| p.iter().any(|o| !matches!(o, COp::Get | COp::Collect | COp::Gather | COp::Acquire))).count();
        rep.nontrivial = exec.preempt_inside_op > 0 && touching >= 2;
        rep.class(if float { "float-counter" } else { "int-counter" });
        if as_child {
            rep.class("vector-child");
        }
        if single_handle {
            rep.class("single-handle-shared-by-reference");
        }
        if lazy_first_touch {
            rep.class("vector-child:first-request-inside-the-threads");
        }
        if prog.iter().any(|p| p.iter().any(|o| matches!(o, COp::LocalFlush(_)))) {
            rep.class("with-local-flush");
        }
        if prog.iter().any(|p| p.iter().any(|o| matches!(o, COp::LInc { .. }))) {
            rep.class("with-persistent-local-handle");
        }
        for p in &prog {
            if let Some(k) = p.iter().position(|o| matches!(o, COp::LClone { .. })) {
                let pending_before = p[..k].iter().rev().take_while(|o| !matches!(o, COp::LFlush { .. })).any(|o| matches!(o, COp::LInc { .. }));
                rep.class(if pending_before { "local-handle-cloned-while-an-amount-is-pending" } else { "local-handle-cloned-with-nothing-pending" });
            }
        }
        if prog.iter().any(|p| p.contains(&COp::Reset)) {
            rep.class("with-reset");
        }
        if exec.spurious_injected > 0 {
            rep.class("spurious-cas-failure-injected");
        }
        rep.count("steps", exec.trace.len() as u64);
        rep.count("context_switches", exec.switches as u64);
        if rep.want_sample {
            rep.sample = Some(format!("{} ;; {} steps, {} switches", describe(&hist), exec.trace.len(), exec.switches));
        }
        Verdict::Pass
    }
}
