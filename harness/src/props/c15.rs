//! C15 — descriptor identity is structural.

use std::collections::{BTreeSet, HashMap};

use prometheus::core::{Collector, Desc, Describer};
use prometheus::{HistogramOpts, Opts, Registry};

use crate::engine::{fail, Budget, Property, Report, Tier, Verdict};
use crate::ensure;
use crate::pools::SeededState;
use crate::src::Src;

pub struct C15;

const NAMES: &[&str] = &["a", "ab", "a_b", "b", "a_b_c", "b_c", "c", "b__c", "a_b__c", "a__b_c", "_a_b", "a_b_"];
// (help texts that are also label names of the pool, bare and with the '$' that marks variable labels in the dimension hash)
const HELPS: &[&str] = &["h", "hh", "h\u{ff}", "é", "h h", "a", "b", "ab", "$a", "$b", "A", "h ", " h", "h\t", " ", "H"];
// (upper-case and underscore names: byte order, the order of `str`, differs from case-folded and from "alphabetical" order)
const LNAMES: &[&str] = &["a", "b", "ab", "ba", "c", "A", "B", "Ab", "aB", "_", "a_", "Z"];
const VALUES: &[&str] = &["", "a", "b", "ab", "ba", "é", "a\u{ff}", "\u{ff}"];

#[derive(Clone, Debug)]
struct Spec {
    ns: String,
    sub: String,
    name: String,
    help: String,
    consts: Vec<(String, String)>, // insertion order
    vars: Vec<String>,
    route: u8,  // 0 Desc::new, 1 Opts, 2 HistogramOpts
    seed: u64,  // hasher seed of the constant-label map handed to Desc::new
}

fn fq(s: &Spec) -> String {
    let mut parts: Vec<&str> = vec![];
    if !s.ns.is_empty() {
        parts.push(&s.ns);
    }
    if !s.sub.is_empty() {
        parts.push(&s.sub);
    }
    parts.push(&s.name);
    parts.join("_")
}

type IdKey = (String, Vec<String>);
type DimKey = (String, BTreeSet<String>, BTreeSet<String>);

fn id_key(s: &Spec) -> IdKey {
    let mut c = s.consts.clone();
    c.sort();
    (fq(s), c.into_iter().map(|(_, v)| v).collect())
}

fn dim_key(s: &Spec) -> DimKey {
    (
        s.help.clone(),
        s.consts.iter().map(|(k, _)| k.clone()).collect(),
        s.vars.iter().cloned().collect(),
    )
}

fn build(s: &Spec) -> Result<Desc, prometheus::Error> {
    match s.route {
        0 => {
            // std HashMap is what the API takes; vary its iteration order by inserting through a
            // seeded intermediate map and by insertion order.
            let mut tmp: HashMap<String, String, SeededState> = HashMap::with_hasher(SeededState(s.seed));
            for (k, v) in &s.consts {
                tmp.insert(k.clone(), v.clone());
            }
            let mut m: HashMap<String, String> = HashMap::new();
            for (k, v) in tmp {
                m.insert(k, v);
            }
            Desc::new(fq(s), s.help.clone(), s.vars.clone(), m)
        }
        1 => {
            let mut o = Opts::new(s.name.clone(), s.help.clone()).namespace(s.ns.clone()).subsystem(s.sub.clone());
            for (k, v) in &s.consts {
                o = o.const_label(k.clone(), v.clone());
            }
            o = o.variable_labels(s.vars.clone());
            o.describe()
        }
        _ => {
            let mut o = HistogramOpts::new(s.name.clone(), s.help.clone()).namespace(s.ns.clone()).subsystem(s.sub.clone());
            let m: HashMap<String, String> = s.consts.iter().cloned().collect();
            o = o.const_labels(m);
            for v in &s.vars {
                o = o.variable_label(v.clone());
            }
            o.describe()
        }
    }
}

fn gen_spec(src: &mut Src) -> Spec {
    let name = src.pick(NAMES).to_string();
    let help = src.pick(HELPS).to_string();
    let nc = src.below(4);
    let nv = src.below(3);
    let mut pool: Vec<&str> = LNAMES.to_vec();
    let mut consts = vec![];
    for _ in 0..nc.min(pool.len()) {
        let i = src.below(pool.len());
        consts.push((pool.remove(i).to_string(), src.pick(VALUES).to_string()));
    }
    let mut vars = vec![];
    for _ in 0..nv.min(pool.len()) {
        let i = src.below(pool.len());
        vars.push(pool.remove(i).to_string());
    }
    if nc == 3 && src.chance(30) {
        // occasionally many labels (distinct synthetic names, values from the same adversarial pool)
        for k in 0..(2 + src.below(9)) {
            consts.push((format!("x{}", k), src.pick(VALUES).to_string()));
        }
        for k in 0..src.below(8) {
            vars.push(format!("y{}", k));
        }
    }
    Spec { ns: String::new(), sub: String::new(), name, help, consts, vars, route: src.below(3) as u8, seed: src.byte() as u64 }
}

/// Split the fq name at a generated '_' into namespace/subsystem/name (same fq name, different route).
fn resplit_name(src: &mut Src, s: &mut Spec) {
    let full = fq(s);
    let cuts: Vec<usize> = full.match_indices('_').map(|(i, _)| i).filter(|i| *i > 0 && *i + 1 < full.len()).collect();
    s.ns.clear();
    s.sub.clear();
    s.name = full.clone();
    if cuts.is_empty() || s.route == 0 {
        return;
    }
    let c1 = cuts[src.below(cuts.len())];
    let (l, r) = (&full[..c1], &full[c1 + 1..]);
    // (either part may itself begin or end with an underscore: "b_" + "_" + "c" is the name "b__c")
    if l.is_empty() || r.is_empty() {
        return;
    }
    if src.chance(128) {
        s.ns = l.to_string();
        // three-way: namespace, subsystem and name
        let cuts2: Vec<usize> = r.match_indices('_').map(|(i, _)| i).filter(|i| *i > 0 && *i + 1 < r.len()).collect();
        if !cuts2.is_empty() && src.chance(128) {
            let c2 = cuts2[src.below(cuts2.len())];
            s.sub = r[..c2].to_string();
            s.name = r[c2 + 1..].to_string();
            return;
        }
    } else {
        s.sub = l.to_string();
    }
    s.name = r.to_string();
}

struct DescCollector(Desc);
impl Collector for DescCollector {
    fn desc(&self) -> Vec<&Desc> {
        vec![&self.0]
    }
    fn collect(&self) -> Vec<prometheus::proto::MetricFamily> {
        vec![]
    }
}

impl Property for C15 {
    fn id(&self) -> &'static str {
        "C15"
    }
    fn rule(&self) -> &'static str {
        "case = pair of descriptors over small adversarial pools (names a/ab/a_b/b..., values ''/a/b/ab/ba/e-acute/0xff-like, label \
         names a/b/ab/ba/c/A/B/Ab/aB/_/a_/Z), the second derived from the first by: nothing, permuting insertion orders and hasher seeds, re-splitting \
         the fq name into namespace/subsystem/name, boundary-shifting name/values, moving a name between constant and variable \
         labels, changing one value / the help / a label name, or (10%) one component replaced by a 24-83 character string in A \
         and by that string with a region removed / repeated / one character changed in B; built through Desc::new, Opts and HistogramOpts; in a quarter of the cases a refused descriptor is requested in between. Oracle: independently \
         computed structural keys <=> equality of id / dim_hash, and Registry::register verdicts follow the keys. Non-trivial: the pair \
         differs only by a boundary shift, only by order/route, or only by const-vs-variable placement. Distinct = decoded choices."
    }
    fn assumptions(&self) -> Vec<&'static str> {
        vec!["a random 64-bit hash collision (probability ~2^-64 per pair) would be reported as a violation to be examined; none is expected"]
    }
    fn budget(&self, tier: Tier) -> Budget {
        match tier {
            Tier::Quick => Budget { cases: 1200000, min_len: 4, max_len: 80 },
            Tier::Thorough => Budget { cases: 24000000, min_len: 4, max_len: 100 },
        }
    }

    fn run(&self, src: &mut Src, rep: &mut Report) -> Verdict {
        let mut used_pair = false;
        match self.run_inner(src, rep, &mut used_pair) {
            // both strings of the known FNV-1a collision were in play: reported under the collision's own signature
            Verdict::Fail { sig, detail } if used_pair => Verdict::Fail { sig: "fnv64-collision-same-identity".into(), detail: format!("[{}] {}", sig, detail) },
            v => v,
        }
    }
}

impl C15 {
    fn run_inner(&self, src: &mut Src, rep: &mut Report, used_pair: &mut bool) -> Verdict {
        let mut a = gen_spec(src);
        let mut b = a.clone();
        let how = src.below(13);
        let mut only_order = false;
        let mut shift = false;
        let mut placement = false;
        match how {
            0 => {
                b = gen_spec(src);
            }
            1 | 2 => {
                // permute insertion orders, change seed and route
                let p = src.perm(b.consts.len());
                b.consts = p.iter().map(|&i| a.consts[i].clone()).collect();
                let p = src.perm(b.vars.len());
                b.vars = p.iter().map(|&i| a.vars[i].clone()).collect();
                b.seed = src.byte() as u64;
                b.route = src.below(3) as u8;
                only_order = true;
            }
            3 => {
                b.route = 1 + src.below(2) as u8;
                resplit_name(src, &mut b);
                only_order = true;
            }
            4 | 5 => {
                // boundary shift: move the last char of the name into the first constant value (in name order) or back
                let mut c = b.consts.clone();
                c.sort();
                if let Some((k0, v0)) = c.first().cloned() {
                    if src.chance(128) && b.name.len() > 1 && !b.name.ends_with('_') {
                        let ch = b.name.pop().unwrap();
                        let nv = format!("{}{}", ch, v0);
                        for e in b.consts.iter_mut() {
                            if e.0 == k0 {
                                e.1 = nv.clone();
                            }
                        }
                    } else if c.len() >= 2 {
                        // shift between the first two values
                        let (k1, v1) = c[1].clone();
                        let cat = format!("{}{}", v0, v1);
                        let chars: Vec<char> = cat.chars().collect();
                        let cut = src.below(chars.len() + 1);
                        let n0: String = chars[..cut].iter().collect();
                        let n1: String = chars[cut..].iter().collect();
                        for e in b.consts.iter_mut() {
                            if e.0 == k0 {
                                e.1 = n0.clone();
                            } else if e.0 == k1 {
                                e.1 = n1.clone();
                            }
                        }
                    }
                    shift = true;
                }
            }
            6 => {
                // move a name between constant and variable labels
                if !b.vars.is_empty() && src.chance(128) {
                    let v = b.vars.remove(src.below(b.vars.len()));
                    b.consts.push((v, src.pick(VALUES).to_string()));
                    placement = true;
                } else if !b.consts.is_empty() {
                    let (k, _) = b.consts.remove(src.below(b.consts.len()));
                    b.vars.push(k);
                    placement = true;
                }
            }
            7 => {
                if !b.consts.is_empty() {
                    let i = src.below(b.consts.len());
                    b.consts[i].1 = src.pick(VALUES).to_string();
                }
            }
            8 => {
                b.help = src.pick(HELPS).to_string();
            }
            9 if b.vars.is_empty() && !b.consts.is_empty() && src.chance(128) => {
                // help / label-name boundary shift in the dimension signature: the last character of the help moves to the front of the
                // first label name (in name order), or the first character of that name to the end of the help
                let i = (0..b.consts.len()).min_by_key(|&i| b.consts[i].0.clone()).unwrap();
                let name = b.consts[i].0.clone();
                let valid = |n: &str| !n.is_empty() && n.chars().all(|c| c.is_ascii_alphanumeric() || c == '_') && !n.chars().next().unwrap().is_ascii_digit();
                let cand: Option<(String, String)> = if src.chance(128) {
                    let mut h: Vec<char> = b.help.chars().collect();
                    if h.len() >= 2 {
                        let c = h.pop().unwrap();
                        Some((h.into_iter().collect(), format!("{}{}", c, name)))
                    } else {
                        None
                    }
                } else {
                    let mut n: Vec<char> = name.chars().collect();
                    if n.len() >= 2 {
                        let c = n.remove(0);
                        Some((format!("{}{}", b.help, c), n.into_iter().collect()))
                    } else {
                        None
                    }
                };
                if let Some((h2, n2)) = cand {
                    // the moved name must stay the first one in name order and clash with no other
                    let others_ok = b.consts.iter().enumerate().all(|(j, c)| j == i || (c.0 != n2 && n2 < c.0));
                    if valid(&n2) && others_ok {
                        b.help = h2;
                        b.consts[i].0 = n2;
                        rep.class("help/label-name-boundary-shift");
                    }
                }
            }
            9 => {
                // a label renamed
                if !b.consts.is_empty() {
                    let i = src.below(b.consts.len());
                    let used: Vec<String> = b.consts.iter().map(|c| c.0.clone()).chain(b.vars.iter().cloned()).collect();
                    let cand: Vec<&&str> = LNAMES.iter().filter(|n| !used.iter().any(|u| u == **n)).collect();
                    if !cand.is_empty() {
                        b.consts[i].0 = cand[src.below(cand.len())].to_string();
                    }
                }
            }
            10 => {
                b.name = src.pick(NAMES).to_string();
            }
            11 => {
                // the same multiset of constant values assigned to the label names in another order
                let p = src.perm(b.consts.len());
                let vals: Vec<String> = p.iter().map(|&i| a.consts[i].1.clone()).collect();
                for (e, v) in b.consts.iter_mut().zip(vals) {
                    e.1 = v;
                }
            }
            _ => {
                // same constant values under different label names (identity must stay equal)
                let used: Vec<String> = b.vars.clone();
                let mut pool: Vec<&str> = LNAMES.iter().copied().filter(|n| !used.iter().any(|u| u == n)).collect();
                let mut c = b.consts.clone();
                c.sort();
                // keep the order of values: assign increasing fresh names
                pool.sort();
                if pool.len() >= c.len() {
                    let start = src.below(pool.len() - c.len() + 1);
                    b.consts = c.iter().enumerate().map(|(i, (_, v))| (pool[start + i].to_string(), v.clone())).collect();
                }
            }
        }

        // 0.4% of cases: the two descriptors differ in one place only, where one has the first and the other the second string of
        // the known 64-bit FNV-1a collision (name, or first constant value)
        if src.chance(1) {
            let (x, y) = crate::pools::FNV64_COLLISION;
            b = a.clone();
            if !a.consts.is_empty() && src.chance(128) {
                a.consts[0].1 = x.to_string();
                b.consts[0].1 = y.to_string();
            } else {
                for s in [&mut a, &mut b] {
                    s.ns.clear();
                    s.sub.clear();
                }
                a.name = x.to_string();
                b.name = y.to_string();
            }
            *used_pair = true;
            rep.class("fnv64-collision-pair");
        }
        // 10% of cases: one component (name, a constant value, the help, a constant or variable label name) is a long string
        // (24-83 characters) in A and a structural variant of it in B: a region removed or repeated (B = s[..x] + s[y..]), one
        // character changed, or nothing changed. Hash functions that work on fixed-size chunks, fold, or look at a prefix
        // separate short strings perfectly and go wrong exactly here.
        let mut long_component = false;
        if src.chance(24) {
            b = a.clone();
            // (a quarter of the long strings are 88-267 bytes: keys around 128 and 256 bytes; fixed buffers have such sizes)
            let len = if src.chance(64) { 88 + src.below(180) } else { 24 + src.below(60) };
            let off = src.below(37);
            const ALPHA: &[u8] = b"abcdefghijklmnopqrstuvwxyz0123456789_";
            let base: Vec<u8> = (0..len).map(|i| ALPHA[(off + i) % ALPHA.len()]).collect();
            let variant: Vec<u8> = match src.below(4) {
                0 | 1 => {
                    let x = src.below(len + 1);
                    let y = src.below(len + 1);
                    base[..x].iter().chain(base[y..].iter()).copied().collect()
                }
                2 => {
                    let mut v = base.clone();
                    // (a third of the changed bytes are among the last four: a key that is cut short loses exactly those)
                    let p = if src.chance(85) { len - 1 - src.below(4) } else { src.below(len) };
                    v[p] = if v[p] == b'q' { b'r' } else { b'q' };
                    v
                }
                _ => base.clone(),
            };
            let ident = |v: &[u8]| -> String {
                let s = String::from_utf8(v.to_vec()).unwrap();
                if s.is_empty() || s.as_bytes()[0].is_ascii_digit() {
                    format!("k{}", s)
                } else {
                    s
                }
            };
            let (sa, mut sb) = (ident(&base), ident(&variant));
            // a variant that happens to equal another label name of the descriptor would make it invalid
            if a.consts.iter().any(|c| c.0 == sb) || a.vars.iter().any(|v| *v == sb) {
                sb = sa.clone();
            }
            match src.below(5) {
                1 if !a.consts.is_empty() => {
                    a.consts[0].1 = sa;
                    b.consts[0].1 = sb;
                }
                2 => {
                    a.help = sa;
                    b.help = sb;
                }
                3 if !a.consts.is_empty() => {
                    a.consts[0].0 = sa;
                    b.consts[0].0 = sb;
                }
                4 if !a.vars.is_empty() => {
                    a.vars[0] = sa;
                    b.vars[0] = sb;
                }
                _ => {
                    a.ns.clear();
                    a.sub.clear();
                    b.ns.clear();
                    b.sub.clear();
                    a.name = sa;
                    b.name = sb;
                }
            }
            only_order = false;
            shift = false;
            placement = false;
            long_component = true;
        }
        // 1% of cases: two constant-label values of A and their twin in B that differ only in where one ends and the next begins AND
        // have lengths that read the same modulo 256 (or 65536): encodings that put a narrow length field in front of each string
        // instead of a separator after it go wrong exactly there
        if !long_component && src.chance(3) {
            let w = if src.chance(170) { 1 } else { 2 };
            let ((v1, v2), (z1, z2)) = crate::pools::length_wrap_twins(w);
            a.consts = vec![("a".to_string(), v1), ("b".to_string(), v2)];
            a.vars.retain(|v| v != "a" && v != "b");
            b = a.clone();
            b.consts = vec![("a".to_string(), z1), ("b".to_string(), z2)];
            only_order = false;
            shift = true;
            placement = false;
            rep.class(if w == 1 { "length-wrap-twins(256)" } else { "length-wrap-twins(65536)" });
        }
        let da = match build(&a) {
            Ok(d) => d,
            Err(e) => return fail("valid-descriptor-rejected", format!("{:?}: {}", a, e)),
        };
        // a quarter of the cases: a descriptor that is refused (for its variable labels, for its help, ...) is requested on
        // this thread between the two; what a descriptor hashes to must not depend on what was attempted before
        if src.chance(64) {
            let bad = match src.below(4) {
                0 => Desc::new("m".into(), "h".into(), vec!["9bad".into()], HashMap::new()),
                1 => Desc::new("m".into(), "h".into(), vec!["a".into(), "a".into()], HashMap::new()),
                2 => {
                    let mut m = HashMap::new();
                    m.insert("a".to_string(), "v".to_string());
                    Desc::new(fq(&a), "h".into(), vec!["a".into()], m)
                }
                _ => Desc::new(fq(&a), String::new(), vec![], HashMap::new()),
            };
            ensure!(bad.is_err(), "invalid-descriptor-accepted", "{:?}", bad.map(|d| d.fq_name));
            rep.class("refused-descriptor-in-between");
        }
        let db = match build(&b) {
            Ok(d) => d,
            Err(e) => return fail("valid-descriptor-rejected", format!("{:?}: {}", b, e)),
        };
        ensure!(da.fq_name == fq(&a) && db.fq_name == fq(&b), "fq-name-differs", "{:?}/{:?} -> {:?}/{:?}", a, b, da.fq_name, db.fq_name);
        let same_id = id_key(&a) == id_key(&b);
        let same_dim = dim_key(&a) == dim_key(&b);
        ensure!(
            (da.id == db.id) == same_id,
            if same_id { "equal-identity-hashes-differ" } else { "different-identity-same-hash" },
            "A={:?} B={:?}: id keys {:?} vs {:?} (equal: {}) but ids {:#x} vs {:#x}",
            a, b, id_key(&a), id_key(&b), same_id, da.id, db.id
        );
        ensure!(
            (da.dim_hash == db.dim_hash) == same_dim,
            if same_dim { "equal-dimensions-hashes-differ" } else { "different-dimensions-same-hash" },
            "A={:?} B={:?}: dim keys {:?} vs {:?} (equal: {}) but dim hashes {:#x} vs {:#x}",
            a, b, dim_key(&a), dim_key(&b), same_dim, da.dim_hash, db.dim_hash
        );
        // the registry follows the keys
        let reg = Registry::new();
        let r1 = reg.register(Box::new(DescCollector(da.clone())));
        ensure!(r1.is_ok(), "first-registration-refused", "{:?}: {:?}", a, r1);
        let r2 = reg.register(Box::new(DescCollector(db.clone())));
        let expect_ok = !same_id && (fq(&a) != fq(&b) || same_dim);
        ensure!(
            r2.is_ok() == expect_ok,
            "registry-verdict-differs-from-keys",
            "after registering A={:?}, registering B={:?} returned {:?}; same identity: {}, same name: {}, same dimensions: {}",
            a, b, r2, same_id, fq(&a) == fq(&b), same_dim
        );
        if same_id {
            ensure!(matches!(r2, Err(prometheus::Error::AlreadyReg)), "equal-descriptor-not-alreadyreg", "{:?} vs {:?}: {:?}", a, b, r2);
        }

        let cat = |s: &Spec| {
            let mut c = s.consts.clone();
            c.sort();
            format!("{}{}", fq(s), c.iter().map(|x| x.1.as_str()).collect::<String>())
        };
        let real_shift = shift && !same_id && cat(&a) == cat(&b);
        rep.nontrivial = real_shift || (only_order && same_id && same_dim) || (placement && !same_dim) || (long_component && !(same_id && same_dim));
        if long_component {
            rep.class("long-component-and-structural-variant");
        }
        if real_shift {
            rep.class("boundary-shift-pair");
        }
        if only_order {
            rep.class("order-or-route-only");
        }
        if placement {
            rep.class("const-vs-variable-placement");
        }
        rep.class(if same_id { "same-identity" } else { "different-identity" });
        rep.class(if same_dim { "same-dimensions" } else { "different-dimensions" });
        if rep.want_sample {
            let text = format!("A={:?} B={:?} same_id={} same_dim={}", a, b, same_id, same_dim);
            rep.sample = Some(if text.len() > 4000 { format!("{} ... ({} bytes)", text.chars().take(600).collect::<String>(), text.len()) } else { text });
        }
        Verdict::Pass
    }
}
