//! C04 — text exposition is a faithful, parseable rendering of the gathered state.

use prometheus::{Encoder, TextEncoder};

use crate::engine::{fail, Budget, Property, Report, Tier, Verdict};
use crate::ensure;
use crate::genfam::{gen_custom, gen_real, GenOpts};
use crate::neutral::{neutral_all, show_families, to_lib, NFamily, NType, NValue};
use crate::src::Src;
use crate::textparse::{parse, Rec};

pub struct C04;

/// Expected record sequence, computed from the input families alone.
#[derive(Debug)]
enum Exp {
    Help(String, String),
    Type(String, &'static str),
    /// name, labels, optional (extra label name, value as f64), value, ts
    Sample(String, Vec<(String, String)>, Option<(&'static str, f64)>, f64, i64),
}

fn expected(fams: &[NFamily]) -> Vec<Exp> {
    let mut out = vec![];
    for f in fams {
        if !f.help.is_empty() {
            out.push(Exp::Help(f.name.clone(), f.help.clone()));
        }
        out.push(Exp::Type(f.name.clone(), f.ty.text()));
        for s in &f.samples {
            match &s.value {
                NValue::Counter(v) | NValue::Gauge(v) => out.push(Exp::Sample(f.name.clone(), s.labels.clone(), None, *v, s.ts)),
                NValue::Histogram { count, sum, buckets } => {
                    let mut inf = false;
                    for (ub, cc) in buckets {
                        out.push(Exp::Sample(format!("{}_bucket", f.name), s.labels.clone(), Some(("le", *ub)), *cc as f64, s.ts));
                        if *ub == f64::INFINITY {
                            inf = true;
                        }
                    }
                    if !inf {
                        out.push(Exp::Sample(
                            format!("{}_bucket", f.name),
                            s.labels.clone(),
                            Some(("le", f64::INFINITY)),
                            *count as f64,
                            s.ts,
                        ));
                    }
                    out.push(Exp::Sample(format!("{}_sum", f.name), s.labels.clone(), None, *sum, s.ts));
                    out.push(Exp::Sample(format!("{}_count", f.name), s.labels.clone(), None, *count as f64, s.ts));
                }
                NValue::Summary { count, sum, quantiles } => {
                    for (q, v) in quantiles {
                        out.push(Exp::Sample(f.name.clone(), s.labels.clone(), Some(("quantile", *q)), *v, s.ts));
                    }
                    out.push(Exp::Sample(format!("{}_sum", f.name), s.labels.clone(), None, *sum, s.ts));
                    out.push(Exp::Sample(format!("{}_count", f.name), s.labels.clone(), None, *count as f64, s.ts));
                }
                NValue::Untyped => {}
            }
        }
    }
    out
}

fn same_value(a: f64, b: f64) -> bool {
    if a.is_nan() || b.is_nan() {
        return a.is_nan() && b.is_nan();
    }
    a.to_bits() == b.to_bits() || (a == 0.0 && b == 0.0 && a.is_sign_negative() == b.is_sign_negative())
}

fn matches(e: &Exp, r: &Rec) -> Result<(), String> {
    match (e, r) {
        (Exp::Help(n, t), Rec::Help { name, text }) => {
            if n == name && t == text {
                Ok(())
            } else {
                Err(format!("HELP differs: expected ({:?},{:?}) parsed ({:?},{:?})", n, t, name, text))
            }
        }
        (Exp::Type(n, t), Rec::Type { name, ty }) => {
            if n == name && t == ty {
                Ok(())
            } else {
                Err(format!("TYPE differs: expected ({:?},{}) parsed ({:?},{})", n, t, name, ty))
            }
        }
        (Exp::Sample(n, labels, extra, v, ts), Rec::Sample { name, labels: pl, value, ts: pts }) => {
            if n != name {
                return Err(format!("sample name: expected {:?} parsed {:?}", n, name));
            }
            let mut rest = pl.clone();
            if let Some((en, ev)) = extra {
                // exactly one label with the reserved name, carrying the bound / quantile as a float
                let idx: Vec<usize> = rest.iter().enumerate().filter(|(_, (k, _))| k == en).map(|(i, _)| i).collect();
                if idx.len() != 1 {
                    return Err(format!("expected exactly one {:?} label, parsed labels {:?}", en, pl));
                }
                let (_, raw) = rest.remove(idx[0]);
                let pv = crate::textparse::parse_float(&raw).map_err(|e| format!("{} label: {}", en, e))?;
                if !same_value(pv, *ev) {
                    return Err(format!("{} label: expected {:?} parsed {:?} (from {:?})", en, ev, pv, raw));
                }
            }
            if rest != *labels {
                return Err(format!("labels: expected {:?} parsed {:?}", labels, rest));
            }
            if !same_value(*v, *value) {
                return Err(format!(
                    "value of {}: expected {:?} ({:#x}) parsed {:?} ({:#x})",
                    n,
                    v,
                    v.to_bits(),
                    value,
                    value.to_bits()
                ));
            }
            let want_ts = if *ts != 0 { Some(*ts) } else { None };
            if want_ts != *pts {
                return Err(format!("timestamp: expected {:?} parsed {:?}", want_ts, pts));
            }
            Ok(())
        }
        _ => Err(format!("record kind differs: expected {:?} parsed {:?}", e, r)),
    }
}

pub fn check_roundtrip(fams: &[NFamily], text: &str) -> Result<(), (String, String)> {
    let recs = parse(text).map_err(|e| ("unparseable-output".to_string(), format!("{} ;; output={:?}", e, text)))?;
    // a HELP line with an empty docstring reads back as "no help": the same family as one without a HELP line
    let recs: Vec<Rec> = recs.into_iter().filter(|r| !matches!(r, Rec::Help { text, .. } if text.is_empty())).collect();
    let exp = expected(fams);
    for (i, (e, r)) in exp.iter().zip(recs.iter()).enumerate() {
        if let Err(m) = matches(e, r) {
            let sig = match e {
                Exp::Help(..) => "help-line-differs",
                Exp::Type(..) => "type-line-differs",
                Exp::Sample(..) => "sample-line-differs",
            };
            return Err((sig.to_string(), format!("record #{}: {} ;; output={:?}", i, m, text)));
        }
    }
    if exp.len() != recs.len() {
        return Err((
            "line-count-differs".to_string(),
            format!("expected {} records, parsed {} ;; output={:?}", exp.len(), recs.len(), text),
        ));
    }
    Ok(())
}

fn is_nontrivial(fams: &[NFamily]) -> bool {
    let odd_str = |s: &str| s.chars().any(|c| c == '\\' || c == '"' || c == '\n' || c == '\r' || !c.is_ascii());
    let odd_f = |v: f64| !v.is_finite() || (v != 0.0 && v.abs() < f64::MIN_POSITIVE) || v.abs() >= 1e21;
    fams.iter().any(|f| {
        odd_str(&f.help)
            || matches!(f.ty, NType::Histogram | NType::Summary)
            || f.samples.iter().any(|s| {
                s.labels.iter().any(|(_, v)| odd_str(v))
                    || match &s.value {
                        NValue::Counter(v) | NValue::Gauge(v) => odd_f(*v),
                        _ => false,
                    }
            })
    })
}

/// Accepts `left` bytes, then fails every write.
struct FailAfter {
    left: usize,
    got: Vec<u8>,
}

impl std::io::Write for FailAfter {
    fn write(&mut self, buf: &[u8]) -> std::io::Result<usize> {
        if self.left == 0 && !buf.is_empty() {
            return Err(std::io::Error::new(std::io::ErrorKind::Other, "writer full"));
        }
        let n = self.left.min(buf.len());
        self.left -= n;
        self.got.extend_from_slice(&buf[..n]);
        Ok(n)
    }
    fn flush(&mut self) -> std::io::Result<()> {
        Ok(())
    }
}

impl Property for C04 {
    fn id(&self) -> &'static str {
        "C04"
    }
    fn rule(&self) -> &'static str {
        "case = 0-6 families, either built through the public setters (counter/gauge/histogram/summary, 1-5 samples, 0-5 labels, \
         help and label values concatenated from an adversarial pool incl. backslash, quote, LF, CR, backslash-n, multi-byte, \
         exposition-like text; every f64 class; counts over u64; timestamps incl. i64 extremes) or gathered from real metrics in a \
         Registry. Oracle: independent 0.0.4 parser -> record sequence must equal the sequence computed from the input; plus \
         encode/encode_utf8/encode_to_string agreement, append-only, and concatenation metamorphic checks; in 30% of cases an encode \
         into a writer that refuses everything after a generated byte offset must return Err and the next encode on the same thread \
         must again produce exactly the same bytes, and in 25% a writer that accepts at most 1-64 bytes per call (plain or \
         vectored) must receive exactly the same bytes. Non-trivial: some help \
         or label value contains one of \\ \" LF CR or a non-ASCII char, or a non-finite/subnormal/>=1e21 value, or a \
         histogram/summary. Distinct = hash of decoded choices."
    }
    fn assumptions(&self) -> Vec<&'static str> {
        vec![
            "names are valid by construction; `le`/`quantile` are not used as ordinary labels of histogram/summary samples",
            "integer counts are compared as the f64 the text format carries (count as f64)",
            "NaN sign/payload is not compared (the format cannot carry it)",
        ]
    }
    fn budget(&self, tier: Tier) -> Budget {
        match tier {
            Tier::Quick => Budget { cases: 300000, min_len: 4, max_len: 400 },
            Tier::Thorough => Budget { cases: 6000000, min_len: 4, max_len: 700 },
        }
    }

    fn post(&self, tier: Tier, seed: u64, stats: &mut crate::engine::Stats) -> Result<(), (String, String, Vec<u8>)> {
        // the encoder is used from several scrape threads at once: simultaneous encodes of different family sets (all three
        // entry points) must each produce exactly what they produce alone
        let sets = if tier == Tier::Quick { 12 } else { 400 };
        let rounds = if tier == Tier::Quick { 60 } else { 400 };
        let mut x = crate::engine::splitmix(seed ^ 0xC04);
        let mut done = 0u64;
        for _ in 0..sets {
            let mut inputs: Vec<(Vec<u8>, Vec<prometheus::proto::MetricFamily>)> = vec![];
            for _ in 0..3 {
                let bytes: Vec<u8> = (0..200)
                    .map(|_| {
                        x = crate::engine::splitmix(x);
                        (x >> 24) as u8
                    })
                    .collect();
                let mut src = Src::new(&bytes);
                let n = gen_custom(&mut src, &GenOpts { allow_untyped: false, allow_empty_family: false, max_families: 6 });
                inputs.push((bytes, n.iter().map(to_lib).collect()));
            }
            let jobs: Vec<Box<dyn Fn() -> Vec<u8> + Sync>> = inputs
                .iter()
                .enumerate()
                .map(|(k, (_, fams))| {
                    let f: Box<dyn Fn() -> Vec<u8> + Sync> = Box::new(move || {
                        let enc = TextEncoder::new();
                        match k {
                            0 => {
                                let mut b = Vec::new();
                                let _ = enc.encode(fams, &mut b);
                                b
                            }
                            1 => {
                                let mut s = String::new();
                                let _ = enc.encode_utf8(fams, &mut s);
                                s.into_bytes()
                            }
                            _ => enc.encode_to_string(fams).unwrap_or_default().into_bytes(),
                        }
                    });
                    f
                })
                .collect();
            done += rounds as u64;
            if let Some((i, round, got)) = crate::iohelp::simultaneous_agreement(&jobs, rounds) {
                return Err((
                    "simultaneous-encodes-interfere".into(),
                    format!("three threads encoded different family sets at the same moment (round {}); thread {} produced {:?}, alone it produces {:?}", round, i, String::from_utf8_lossy(&got), String::from_utf8_lossy(&jobs[i]())),
                    inputs[i].0.clone(),
                ));
            }
        }
        stats.extra.push(("simultaneous_encode_rounds".into(), serde_json::json!(done)));
        Ok(())
    }

    fn run(&self, src: &mut Src, rep: &mut Report) -> Verdict {
        let real = src.chance(100);
        let (lib, fams): (Vec<prometheus::proto::MetricFamily>, Vec<NFamily>) = if real {
            let l = gen_real(src);
            let n = neutral_all(&l);
            (l, n)
        } else {
            let n = gen_custom(src, &GenOpts { allow_untyped: false, allow_empty_family: false, max_families: 6 });
            (n.iter().map(to_lib).collect(), n)
        };
        // sanity of the harness itself: what we feed is what the getters show
        let enc = TextEncoder::new();

        let prefix_bytes: Vec<u8> = (0..src.below(6)).map(|_| src.byte()).collect();
        let mut buf = prefix_bytes.clone();
        if let Err(e) = enc.encode(&lib, &mut buf) {
            return fail("encode-error", format!("{} ;; {}", e, show_families(&fams)));
        }
        ensure!(buf.starts_with(&prefix_bytes), "encode-not-append-only", "prefix {:?} changed", prefix_bytes);
        let new_bytes = buf[prefix_bytes.len()..].to_vec();
        let text = match String::from_utf8(new_bytes.clone()) {
            Ok(t) => t,
            Err(e) => return fail("output-not-utf8", format!("{}", e)),
        };
        let sprefix = src.text(&["", "x", "# p\n", "é"], 2);
        let mut sbuf = sprefix.clone();
        if let Err(e) = enc.encode_utf8(&lib, &mut sbuf) {
            return fail("encode-error", format!("encode_utf8: {}", e));
        }
        ensure!(sbuf.starts_with(&sprefix), "encode-not-append-only", "encode_utf8 changed the existing prefix {:?}", sprefix);
        ensure!(
            sbuf[sprefix.len()..] == text,
            "encoders-disagree",
            "encode_utf8 wrote {:?} but encode wrote {:?}",
            &sbuf[sprefix.len()..],
            text
        );
        match enc.encode_to_string(&lib) {
            Ok(s) => ensure!(s == text, "encoders-disagree", "encode_to_string gave {:?} but encode wrote {:?}", s, text),
            Err(e) => return fail("encode-error", format!("encode_to_string: {}", e)),
        }
        // an encode into a writer that stops accepting bytes reports the failure and leaves nothing behind that
        // could alter a later rendering made on the same thread
        if src.chance(80) && !new_bytes.is_empty() {
            let cut = src.below(new_bytes.len().min(4096));
            let mut w = FailAfter { left: cut, got: vec![] };
            let r = enc.encode(&lib, &mut w);
            ensure!(r.is_err(), "failed-write-reported-ok", "the writer refused everything after byte {} of {} but encode returned Ok", cut, new_bytes.len());
            let mut again = Vec::new();
            let r = enc.encode(&lib, &mut again);
            ensure!(r.is_ok(), "encode-error", "encode after a failed encode: {:?}", r);
            ensure!(
                again == new_bytes,
                "rendering-changed-after-failed-encode",
                "the writer failed at byte {}; the next encode on this thread wrote {:?} instead of {:?}",
                cut,
                String::from_utf8_lossy(&again),
                text
            );
            rep.class("failed-encode-then-encode-again");
        }
        // a peer that stalls once (WouldBlock) or an interrupted write: the error is reported, or every byte arrives exactly once
        if src.chance(40) && !new_bytes.is_empty() {
            let accept = src.below(new_bytes.len() + 1);
            let kind = if src.chance(128) { std::io::ErrorKind::WouldBlock } else { std::io::ErrorKind::Interrupted };
            let mut w = crate::iohelp::StallWriter { accept, kind, stalled: false, got: vec![] };
            let r = enc.encode(&lib, &mut w);
            ensure!(
                r.is_err() || w.got == new_bytes,
                "output-corrupted-after-a-stalled-write",
                "a writer that answered {:?} once after {} bytes: encode returned {:?} and the writer holds {:?} instead of {:?}",
                kind, accept, r.map_err(|e| e.to_string()), String::from_utf8_lossy(&w.got), text
            );
            rep.class("writer-stalls-once");
        }
        // a writer that takes only part of what it is offered (short writes are legal for io::Write): nothing may be lost
        if src.chance(64) && !new_bytes.is_empty() {
            let max = [1usize, 2, 3, 5, 7, 16, 64][src.below(7)];
            let vectored = src.chance(128);
            let mut w = crate::iohelp::ShortWriter { max, vectored, got: vec![], calls: 0 };
            let r = enc.encode(&lib, &mut w);
            ensure!(r.is_ok(), "encode-error", "encode into a writer that accepts at most {} bytes per call: {:?}", max, r);
            ensure!(
                w.got == new_bytes,
                "bytes-lost-on-short-writes",
                "a writer that accepts at most {} bytes per call (write_vectored {}) received {:?} instead of {:?}",
                max,
                if vectored { "fills across slices" } else { "default" },
                String::from_utf8_lossy(&w.got),
                text
            );
            rep.class("short-writes");
        }
        // concatenation: a ++ b == a then b
        if lib.len() >= 2 {
            let k = 1 + src.below(lib.len() - 1);
            let mut two = Vec::new();
            let r1 = enc.encode(&lib[..k], &mut two);
            let r2 = enc.encode(&lib[k..], &mut two);
            ensure!(r1.is_ok() && r2.is_ok(), "encode-error", "split encode failed");
            ensure!(two == new_bytes, "concat-differs", "encoding a++b differs from encoding a then b at split {}", k);
        }

        if let Err((sig, detail)) = check_roundtrip(&fams, &text) {
            return fail(sig, format!("{} ;; input={}", detail, show_families(&fams)));
        }

        rep.nontrivial = is_nontrivial(&fams);
        rep.class(if real { "source:gathered-from-real-metrics" } else { "source:custom-families" });
        for f in &fams {
            rep.class(match f.ty {
                NType::Counter => "type:counter",
                NType::Gauge => "type:gauge",
                NType::Histogram => "type:histogram",
                NType::Summary => "type:summary",
                NType::Untyped => "type:untyped",
            });
            if f.help.is_empty() {
                rep.class("empty-help");
            }
            if f.help.contains('\n') || f.samples.iter().any(|s| s.labels.iter().any(|(_, v)| v.contains('\n'))) {
                rep.class("newline-in-string");
            }
            if f.samples.iter().any(|s| s.labels.iter().any(|(_, v)| v.contains('"') || v.contains('\\'))) {
                rep.class("quote-or-backslash-in-label-value");
            }
            if f.samples.iter().any(|s| s.ts != 0) {
                rep.class("with-timestamp");
            }
            if f.samples.iter().any(|s| matches!(&s.value, NValue::Histogram{buckets,..} if buckets.iter().any(|b| b.0 == f64::INFINITY))) {
                rep.class("explicit-inf-bucket");
            }
        }
        if fams.is_empty() {
            rep.class("no-families");
        }
        if rep.want_sample {
            rep.sample = Some(format!("{} => {:?}", show_families(&fams), text));
        }
        Verdict::Pass
    }
}
