//! Deterministic scheduler: runs real library code on real threads one synchronisation step at a
//! time, in the order a generated schedule dictates (DESIGN.md §3).
//!
//! Workers announce every operation start/end and every hooked atomic / lock operation, then park.
//! The controller (the calling thread) picks which parked worker takes the next step.

use std::collections::HashMap;
use std::sync::atomic::{AtomicBool, AtomicU8, Ordering};
use std::sync::{Arc, Mutex};
use std::thread::Thread;
use std::time::{Duration, Instant};

pub use prometheus::verif_sync::{Directive, Event, Hook, Kind, Outcome};
use prometheus::verif_sync::set_thread_hook;

const RUNNING: u8 = 0;
const PARKED: u8 = 1;
const FINISHED: u8 = 2;

#[derive(Clone, Debug)]
pub enum Ann {
    Begin,
    OpStart(usize),
    OpEnd(usize),
    Sync(Event),
}

#[derive(Clone, Debug)]
pub enum Note {
    Outcome(Event, Outcome),
    Unlock(Event),
}

struct Slot {
    state: AtomicU8,
    go: AtomicBool,
    spurious: AtomicBool,
    ann: Mutex<Option<Ann>>,
    notes: Mutex<Vec<Note>>,
    thread: Mutex<Option<Thread>>,
}

struct Shared {
    slots: Vec<Slot>,
    controller: Thread,
    abort: AtomicBool,
}

struct AbortToken;

struct WorkerHook {
    shared: Arc<Shared>,
    me: usize,
}

impl WorkerHook {
    fn announce(&self, a: Ann) -> bool {
        let s = &self.shared.slots[self.me];
        if self.shared.abort.load(Ordering::SeqCst) {
            std::panic::resume_unwind(Box::new(AbortToken));
        }
        *s.ann.lock().unwrap() = Some(a);
        s.state.store(PARKED, Ordering::SeqCst);
        self.shared.controller.unpark();
        loop {
            if s.go.swap(false, Ordering::SeqCst) {
                break;
            }
            std::thread::park();
        }
        if self.shared.abort.load(Ordering::SeqCst) {
            std::panic::resume_unwind(Box::new(AbortToken));
        }
        s.spurious.swap(false, Ordering::SeqCst)
    }
}

fn is_unlock(k: Kind) -> bool {
    matches!(k, Kind::MutexUnlock | Kind::RwReadUnlock | Kind::RwWriteUnlock)
}
fn is_lock(k: Kind) -> bool {
    matches!(k, Kind::MutexLock | Kind::RwRead | Kind::RwWrite)
}

impl Hook for WorkerHook {
    fn before(&self, e: &Event) -> Directive {
        if is_unlock(e.kind) {
            // not a scheduling point: the controller learns about it with the next announcement
            self.shared.slots[self.me].notes.lock().unwrap().push(Note::Unlock(*e));
            return Directive::Proceed;
        }
        if std::thread::panicking() {
            // unwinding after an abort: do not park again
            return Directive::Proceed;
        }
        if self.announce(Ann::Sync(*e)) {
            Directive::FailSpuriously
        } else {
            Directive::Proceed
        }
    }
    fn after(&self, e: &Event, o: &Outcome) {
        if is_unlock(e.kind) || is_lock(e.kind) {
            return;
        }
        self.shared.slots[self.me].notes.lock().unwrap().push(Note::Outcome(*e, *o));
    }
}

#[derive(Clone, Debug)]
pub struct TraceEv {
    pub step: usize,
    pub thread: usize,
    pub ann: Ann,
    pub outcome: Option<Outcome>,
    pub spurious: bool,
    /// index of the operation (within the thread) this event belongs to
    pub op: Option<usize>,
}

#[derive(Clone, Debug)]
pub struct OpRec<R> {
    pub thread: usize,
    pub idx: usize,
    /// step at which the operation was allowed to start / at which its end was announced
    pub invoke: usize,
    pub response: Option<usize>,
    pub result: Option<R>,
}

#[derive(Clone, Debug, PartialEq)]
pub enum ExecVerdict {
    Completed,
    /// some worker is unfinished and none is enabled; `spinners` are in a futile spin, `blocked` wait for a lock
    Stuck { spinners: Vec<usize>, blocked: Vec<usize> },
    Panic(String),
    StepLimit,
    /// the chooser ended the run on purpose (isolation schedules)
    Halted,
}

/// Returned by a chooser to end the run.
pub const HALT: usize = usize::MAX;

pub struct Exec<R> {
    pub ops: Vec<OpRec<R>>,
    pub trace: Vec<TraceEv>,
    pub verdict: ExecVerdict,
    pub switches: usize,
    pub preempt_inside_op: usize,
    pub spurious_injected: usize,
}

/// What the chooser sees at a decision point.
pub struct Decision<'a> {
    pub step: usize,
    pub enabled: &'a [usize],
    pub current: Option<usize>,
    /// pending announcement of every worker (None = finished)
    pub pending: &'a [Option<Ann>],
    /// number of sync events each worker has performed so far
    pub sync_counts: &'a [usize],
    /// number of completed operations per worker
    pub ops_done: &'a [usize],
    /// workers currently between OpStart and OpEnd
    pub in_op: &'a [bool],
    /// workers in a futile spin (disabled until someone writes the location they wait for)
    pub spinners: &'a [usize],
    /// workers that could run but are only re-reading unchanged locations (a wait loop on plain loads), with the number of
    /// times each has been run in that state; they are left out of `enabled` unless nothing else can run, and a chooser may
    /// still pick one of them
    pub waiting: &'a [(usize, usize)],
}

pub trait Chooser {
    fn choose(&mut self, d: &Decision) -> usize;
    /// Asked for every CAS that is about to be performed.
    fn fail_spuriously(&mut self, _d: &Decision, _thread: usize) -> bool {
        false
    }
}

pub type OpFn<'a, R> = Box<dyn FnOnce() -> R + Send + 'a>;

pub fn run<'a, R: Send + 'a>(threads: Vec<Vec<OpFn<'a, R>>>, chooser: &mut dyn Chooser, max_steps: usize) -> Exec<R> {
    run_opts(threads, chooser, max_steps, false)
}

/// `hold_last`: the last thread is a finalizer that only becomes enabled once every other thread has
/// finished (quiescent reads that must still run under the scheduler so that a spin is detected).
pub fn run_opts<'a, R: Send + 'a>(threads: Vec<Vec<OpFn<'a, R>>>, chooser: &mut dyn Chooser, max_steps: usize, hold_last: bool) -> Exec<R> {
    if crate::schedsrc::free_mode() {
        return run_free(threads, hold_last);
    }
    let n = threads.len();
    let shared = Arc::new(Shared {
        slots: (0..n)
            .map(|_| Slot {
                state: AtomicU8::new(RUNNING),
                go: AtomicBool::new(false),
                spurious: AtomicBool::new(false),
                ann: Mutex::new(None),
                notes: Mutex::new(vec![]),
                thread: Mutex::new(None),
            })
            .collect(),
        controller: std::thread::current(),
        abort: AtomicBool::new(false),
    });
    let results: Vec<Mutex<Vec<Option<R>>>> = threads.iter().map(|t| Mutex::new((0..t.len()).map(|_| None).collect())).collect();
    let panics: Mutex<Vec<String>> = Mutex::new(vec![]);

    let mut controller_panic: Option<Box<dyn std::any::Any + Send>> = None;
    let mut exec = Exec { ops: vec![], trace: vec![], verdict: ExecVerdict::Completed, switches: 0, preempt_inside_op: 0, spurious_injected: 0 };

    std::thread::scope(|scope| {
        for (me, ops) in threads.into_iter().enumerate() {
            let shared = shared.clone();
            let results = &results;
            let panics = &panics;
            scope.spawn(move || {
                *shared.slots[me].thread.lock().unwrap() = Some(std::thread::current());
                let hook = Arc::new(WorkerHook { shared: shared.clone(), me });
                let h2 = hook.clone();
                let r = std::panic::catch_unwind(std::panic::AssertUnwindSafe(|| {
                    h2.announce(Ann::Begin);
                    set_thread_hook(Some(hook.clone() as Arc<dyn Hook>));
                    for (i, op) in ops.into_iter().enumerate() {
                        set_thread_hook(None);
                        h2.announce(Ann::OpStart(i));
                        set_thread_hook(Some(hook.clone() as Arc<dyn Hook>));
                        let r = op();
                        set_thread_hook(None);
                        results[me].lock().unwrap()[i] = Some(r);
                        h2.announce(Ann::OpEnd(i));
                        set_thread_hook(Some(hook.clone() as Arc<dyn Hook>));
                    }
                }));
                set_thread_hook(None);
                if let Err(e) = r {
                    if e.downcast_ref::<AbortToken>().is_none() {
                        let msg = if let Some(s) = e.downcast_ref::<&str>() {
                            s.to_string()
                        } else if let Some(s) = e.downcast_ref::<String>() {
                            s.clone()
                        } else {
                            "<non-string panic>".to_string()
                        };
                        panics.lock().unwrap().push(format!("worker {}: {}", me, msg));
                    }
                }
                shared.slots[me].state.store(FINISHED, Ordering::SeqCst);
                shared.controller.unpark();
            });
        }

        // ---------------- controller (panic-safe: workers are always released)
        let ctl = std::panic::catch_unwind(std::panic::AssertUnwindSafe(|| {
        // ---------------- controller
        let wait_parked = |w: usize| {
            let t0 = Instant::now();
            while shared.slots[w].state.load(Ordering::SeqCst) == RUNNING {
                std::thread::park_timeout(Duration::from_millis(50));
                // (generous: on a machine that is heavily oversubscribed by other work a descheduled worker was once seen to
                // stay silent for more than 20 s)
                if t0.elapsed() > Duration::from_secs(180) {
                    eprintln!("pv: watchdog: worker {} made no announcement for 180 s (inconclusive)", w);
                    std::process::exit(2);
                }
            }
        };
        for w in 0..n {
            wait_parked(w);
        }
        let mut pending: Vec<Option<Ann>> = vec![None; n];
        let mut sync_counts = vec![0usize; n];
        let mut ops_done = vec![0usize; n];
        let mut in_op = vec![false; n];
        let mut cur_op: Vec<Option<usize>> = vec![None; n];
        // lock table: addr -> (writer, readers)
        let mut locks: HashMap<usize, (Option<usize>, Vec<usize>)> = HashMap::new();
        let mut last_write: HashMap<usize, usize> = HashMap::new();
        // per thread: last completed sync event (trace index)
        let mut last_ev: Vec<Option<usize>> = vec![None; n];
        let mut open_ops: Vec<Option<usize>> = vec![None; n]; // index into exec.ops
        let mut current: Option<usize> = None;
        let mut step = 0usize;
        // read-only streak of every worker: the addresses it has read (loads, failed compare-exchanges) since its last
        // write / lock event / operation boundary, the step at which the streak began, and how often the worker was run
        // although it was only re-reading unchanged locations (see `soft` below)
        let ro: std::cell::RefCell<Vec<Vec<usize>>> = std::cell::RefCell::new(vec![vec![]; n]);
        let ro_start: std::cell::RefCell<Vec<usize>> = std::cell::RefCell::new(vec![0; n]);
        let forced: std::cell::RefCell<Vec<usize>> = std::cell::RefCell::new(vec![0; n]);

        let absorb = |w: usize, exec: &mut Exec<R>, locks: &mut HashMap<usize, (Option<usize>, Vec<usize>)>, last_write: &mut HashMap<usize, usize>, last_ev: &Vec<Option<usize>>| {
            // notes produced since the worker's last announcement
            let notes: Vec<Note> = std::mem::take(&mut *shared.slots[w].notes.lock().unwrap());
            for nt in notes {
                match nt {
                    Note::Outcome(e, o) => {
                        if let Some(ti) = last_ev[w] {
                            exec.trace[ti].outcome = Some(o);
                            let wrote = match e.kind {
                                Kind::Store | Kind::Swap | Kind::FetchAdd | Kind::FetchSub | Kind::FetchRmw => true,
                                Kind::CasWeak | Kind::Cas => o.ok,
                                _ => false,
                            };
                            // a successful non-blocking acquisition enters the lock table here (before anybody else runs)
                            if o.ok {
                                match e.kind {
                                    Kind::MutexTryLock | Kind::RwTryWrite => locks.entry(e.addr).or_insert((None, vec![])).0 = Some(w),
                                    Kind::RwTryRead => locks.entry(e.addr).or_insert((None, vec![])).1.push(w),
                                    _ => {}
                                }
                            }
                            if wrote {
                                last_write.insert(e.addr, exec.trace[ti].step);
                            }
                            // (an injected spurious compare-exchange failure says nothing about waiting: it ends the streak)
                            let read_only = matches!(e.kind, Kind::Load) || (matches!(e.kind, Kind::CasWeak | Kind::Cas) && !o.ok && !exec.trace[ti].spurious);
                            if read_only {
                                let mut r = ro.borrow_mut();
                                if r[w].is_empty() {
                                    ro_start.borrow_mut()[w] = exec.trace[ti].step;
                                }
                                r[w].push(e.addr);
                            } else {
                                ro.borrow_mut()[w].clear();
                                forced.borrow_mut()[w] = 0;
                            }
                        }
                    }
                    Note::Unlock(e) => {
                        ro.borrow_mut()[w].clear();
                        forced.borrow_mut()[w] = 0;
                        let st = exec.trace.last().map_or(0, |t| t.step);
                        exec.trace.push(TraceEv { step: st, thread: w, ann: Ann::Sync(e), outcome: None, spurious: false, op: None });
                        let ent = locks.entry(e.addr).or_insert((None, vec![]));
                        match e.kind {
                            Kind::MutexUnlock | Kind::RwWriteUnlock => ent.0 = None,
                            Kind::RwReadUnlock => {
                                if let Some(p) = ent.1.iter().position(|x| *x == w) {
                                    ent.1.remove(p);
                                }
                            }
                            _ => {}
                        }
                    }
                }
            }
        };

        for w in 0..n {
            pending[w] = shared.slots[w].ann.lock().unwrap().take();
        }

        loop {
            // which workers are unfinished, which enabled
            let mut unfinished = vec![];
            let mut enabled = vec![];
            let mut spinners = vec![];
            let mut blocked = vec![];
            // workers that are about to re-read a location they have already read in a streak of reads during which nobody
            // wrote any of the locations read: a wait loop on plain loads. They are only run when nothing else can run.
            let mut soft: Vec<usize> = vec![];
            let others_unfinished = (0..n.saturating_sub(1)).any(|w| pending[w].is_some());
            for w in 0..n {
                let Some(a) = &pending[w] else { continue };
                unfinished.push(w);
                if hold_last && w == n - 1 && others_unfinished {
                    continue;
                }
                let ok = match a {
                    Ann::Sync(e) => match e.kind {
                        Kind::MutexLock | Kind::RwWrite => {
                            let free = locks.get(&e.addr).map_or(true, |l| l.0.is_none() && l.1.is_empty());
                            if !free {
                                blocked.push(w);
                            }
                            free
                        }
                        Kind::RwRead => {
                            let free = locks.get(&e.addr).map_or(true, |l| l.0.is_none());
                            if !free {
                                blocked.push(w);
                            }
                            free
                        }
                        Kind::CasWeak | Kind::Cas => {
                            // futile spin: identical to this thread's previous event, which failed for real,
                            // and nobody has written the location since
                            let mut futile = false;
                            if let Some(ti) = last_ev[w] {
                                let p = &exec.trace[ti];
                                if let (Ann::Sync(pe), Some(po)) = (&p.ann, &p.outcome) {
                                    if pe.kind == e.kind
                                        && pe.addr == e.addr
                                        && pe.expected == e.expected
                                        && pe.operand == e.operand
                                        && !po.ok
                                        && !p.spurious
                                        && last_write.get(&e.addr).map_or(true, |s| *s < p.step)
                                    {
                                        futile = true;
                                    }
                                }
                            }
                            if futile {
                                spinners.push(w);
                            }
                            !futile
                        }
                        Kind::Load => {
                            let r = ro.borrow();
                            let start = ro_start.borrow()[w];
                            let waiting = r[w].contains(&e.addr) && r[w].iter().all(|a| last_write.get(a).map_or(true, |s| *s < start));
                            if waiting {
                                soft.push(w);
                            }
                            !waiting
                        }
                        _ => true,
                    },
                    _ => true,
                };
                if ok {
                    enabled.push(w);
                }
            }
            if unfinished.is_empty() {
                break;
            }
            if enabled.is_empty() && !soft.is_empty() {
                // nothing else can run: let the waiting readers go round once more; a reader that has gone round 3000 times
                // this way is waiting for a write that nobody is left to make
                let mut f = forced.borrow_mut();
                if soft.iter().all(|w| f[*w] >= 3000) {
                    spinners.extend(soft.iter().copied());
                    exec.verdict = ExecVerdict::Stuck { spinners, blocked };
                    break;
                }
                for w in &soft {
                    f[*w] += 1;
                }
                enabled = soft.clone();
            }
            if enabled.is_empty() {
                exec.verdict = ExecVerdict::Stuck { spinners, blocked };
                break;
            }
            if step >= max_steps {
                exec.verdict = ExecVerdict::StepLimit;
                break;
            }
            let waiting: Vec<(usize, usize)> = soft.iter().map(|w| (*w, forced.borrow()[*w])).collect();
            let d = Decision { step, enabled: &enabled, current, pending: &pending, sync_counts: &sync_counts, ops_done: &ops_done, in_op: &in_op, spinners: &spinners, waiting: &waiting };
            let mut w = chooser.choose(&d);
            if w == HALT {
                exec.verdict = ExecVerdict::Halted;
                break;
            }
            if !enabled.contains(&w) {
                if soft.contains(&w) {
                    forced.borrow_mut()[w] += 1;
                } else {
                    w = enabled[0];
                }
            }
            let mut spurious = false;
            if let Some(Ann::Sync(e)) = &pending[w] {
                if e.kind == Kind::CasWeak && chooser.fail_spuriously(&d, w) {
                    spurious = true;
                    exec.spurious_injected += 1;
                }
            }
            if let Some(c) = current {
                if c != w {
                    exec.switches += 1;
                    if in_op[c] && pending[c].is_some() && matches!(pending[c], Some(Ann::Sync(_))) {
                        exec.preempt_inside_op += 1;
                    }
                }
            }
            current = Some(w);
            // record the granted announcement
            let a = pending[w].take().unwrap();
            match &a {
                Ann::OpStart(i) => {
                    ro.borrow_mut()[w].clear();
                    forced.borrow_mut()[w] = 0;
                    in_op[w] = true;
                    cur_op[w] = Some(*i);
                    exec.ops.push(OpRec { thread: w, idx: *i, invoke: step, response: None, result: None });
                    open_ops[w] = Some(exec.ops.len() - 1);
                }
                Ann::OpEnd(_) => {
                    ro.borrow_mut()[w].clear();
                    forced.borrow_mut()[w] = 0;
                    in_op[w] = false;
                    if let Some(oi) = open_ops[w].take() {
                        exec.ops[oi].response = Some(step);
                    }
                    ops_done[w] += 1;
                }
                Ann::Sync(e) => {
                    sync_counts[w] += 1;
                    let ent = locks.entry(e.addr).or_insert((None, vec![]));
                    match e.kind {
                        Kind::MutexLock | Kind::RwWrite => ent.0 = Some(w),
                        Kind::RwRead => ent.1.push(w),
                        _ => {}
                    }
                }
                Ann::Begin => {}
            }
            let is_sync = matches!(a, Ann::Sync(_));
            exec.trace.push(TraceEv { step, thread: w, ann: a, outcome: None, spurious, op: cur_op[w] });
            if is_sync {
                last_ev[w] = Some(exec.trace.len() - 1);
            }
            if matches!(exec.trace.last().unwrap().ann, Ann::OpEnd(_)) {
                cur_op[w] = None;
            }
            step += 1;
            // let it run to its next announcement
            let s = &shared.slots[w];
            s.spurious.store(spurious, Ordering::SeqCst);
            s.state.store(RUNNING, Ordering::SeqCst);
            s.go.store(true, Ordering::SeqCst);
            if let Some(t) = s.thread.lock().unwrap().as_ref() {
                t.unpark();
            }
            wait_parked(w);
            absorb(w, &mut exec, &mut locks, &mut last_write, &last_ev);
            if s.state.load(Ordering::SeqCst) == FINISHED {
                pending[w] = None;
            } else {
                pending[w] = s.ann.lock().unwrap().take();
            }
            if !panics.lock().unwrap().is_empty() {
                break;
            }
        }
        }));
        // release everything that is still parked (stuck, step limit, panic elsewhere): they unwind
        shared.abort.store(true, Ordering::SeqCst);
        for w in 0..n {
            let s = &shared.slots[w];
            if s.state.load(Ordering::SeqCst) != FINISHED {
                s.state.store(RUNNING, Ordering::SeqCst);
                s.go.store(true, Ordering::SeqCst);
                if let Some(t) = s.thread.lock().unwrap().as_ref() {
                    t.unpark();
                }
            }
        }
        if let Err(e) = ctl {
            controller_panic = Some(e);
        }
    });
    if let Some(e) = controller_panic {
        std::panic::resume_unwind(e);
    }

    let p = panics.into_inner().unwrap();
    if !p.is_empty() {
        exec.verdict = ExecVerdict::Panic(p.join("; "));
    }
    for (w, r) in results.into_iter().enumerate() {
        let mut v = r.into_inner().unwrap();
        for o in exec.ops.iter_mut().filter(|o| o.thread == w) {
            o.result = v[o.idx].take();
        }
    }
    exec
}

// ------------------------------------------------------------------------------------------------
// Schedule sources (all decoded from the case bytes)

use crate::src::Src;

/// Random walk: mostly continue the running thread, sometimes switch (zero bytes never pre-empt).
pub struct Walk<'a, 'b> {
    pub src: &'a mut Src<'b>,
    pub switch_p: u32,
    pub spurious_left: usize,
}

impl Chooser for Walk<'_, '_> {
    fn choose(&mut self, d: &Decision) -> usize {
        if let Some(c) = d.current {
            if d.enabled.contains(&c) && !self.src.chance(self.switch_p) {
                return c;
            }
        }
        d.enabled[self.src.below(d.enabled.len())]
    }
    fn fail_spuriously(&mut self, _d: &Decision, _t: usize) -> bool {
        if self.spurious_left > 0 && self.src.chance(24) {
            self.spurious_left -= 1;
            true
        } else {
            false
        }
    }
}

/// PCT: random priorities and `d` priority-change points.
pub struct Pct {
    pub prio: Vec<i64>,
    pub change_at: Vec<usize>,
    pub low: i64,
    pub spurious_at: Vec<usize>,
}

impl Pct {
    pub fn from_src(src: &mut Src, nthreads: usize, horizon: usize) -> Pct {
        let order = src.perm(nthreads);
        let mut prio = vec![0i64; nthreads];
        for (rank, t) in order.iter().enumerate() {
            prio[*t] = 1000 - rank as i64;
        }
        let d = 1 + src.below(3);
        let change_at = (0..d).map(|_| src.below(horizon.max(1))).collect();
        let ns = src.below(3);
        let spurious_at = (0..ns).map(|_| src.below(horizon.max(1))).collect();
        Pct { prio, change_at, low: 0, spurious_at }
    }
}

impl Chooser for Pct {
    fn choose(&mut self, d: &Decision) -> usize {
        if self.change_at.contains(&d.step) {
            if let Some(c) = d.current {
                self.low -= 1;
                self.prio[c] = self.low;
            }
        }
        *d.enabled.iter().max_by_key(|t| self.prio[**t]).unwrap()
    }
    fn fail_spuriously(&mut self, d: &Decision, _t: usize) -> bool {
        self.spurious_at.contains(&d.step)
    }
}

/// Window: pause `victim` right before its `at`-th sync event until `other` has completed `k`
/// whole operations (or cannot run); everything else runs thread by thread.
pub struct Window {
    pub victim: usize,
    pub at: usize,
    pub other: usize,
    pub k: usize,
    pub started_at: Option<usize>,
    pub released: bool,
}

impl Chooser for Window {
    fn choose(&mut self, d: &Decision) -> usize {
        let v = self.victim;
        let holding = !self.released && d.sync_counts[v] >= self.at && matches!(d.pending[v], Some(Ann::Sync(_)));
        if holding {
            let base = *self.started_at.get_or_insert(d.ops_done[self.other]);
            let done = d.ops_done[self.other] - base;
            if done < self.k && d.enabled.contains(&self.other) {
                return self.other;
            }
            self.released = true;
        }
        // default: prefer the victim until it reaches its pause point, then lowest thread id
        if !self.released && d.enabled.contains(&v) && d.sync_counts[v] < self.at {
            return v;
        }
        if let Some(c) = d.current {
            if d.enabled.contains(&c) {
                return c;
            }
        }
        d.enabled[0]
    }
}


/// Free-running execution: the same program on real OS threads released together by a spin barrier, with no
/// hook installed (the library's synchronisation runs natively, including any that does not go through the
/// shim). Invocation and response "steps" are tickets drawn from one global counter, so `a.response <
/// b.invoke` still implies that `a` returned before `b` was called and the history oracles stay sound. The
/// outcome depends on the OS scheduler: a failure found this way is real but reproduces only statistically.
/// A run that does not finish within 180 s ends the process with exit status 2 (inconclusive).
pub fn run_free<'a, R: Send + 'a>(threads: Vec<Vec<OpFn<'a, R>>>, hold_last: bool) -> Exec<R> {
    use std::sync::atomic::AtomicUsize;
    let n = threads.len();
    let nworkers = if hold_last { n - 1 } else { n };
    let ticket = AtomicUsize::new(1);
    let ready = AtomicUsize::new(0);
    let done = Arc::new(AtomicBool::new(false));
    {
        let done = done.clone();
        std::thread::spawn(move || {
            for _ in 0..1800 {
                std::thread::sleep(std::time::Duration::from_millis(100));
                if done.load(Ordering::SeqCst) {
                    return;
                }
            }
            eprintln!("pv: a free-running case did not finish within 180 s (inconclusive)");
            std::process::exit(2);
        });
    }
    let recs: Mutex<Vec<OpRec<R>>> = Mutex::new(vec![]);
    let panic_msg: Mutex<Option<String>> = Mutex::new(None);
    let mut it = threads.into_iter();
    let workers: Vec<Vec<OpFn<'a, R>>> = (&mut it).take(nworkers).collect();
    let finalizer: Option<Vec<OpFn<'a, R>>> = it.next();
    let run_ops = |t: usize, ops: Vec<OpFn<'a, R>>| {
        for (idx, op) in ops.into_iter().enumerate() {
            let invoke = ticket.fetch_add(1, Ordering::SeqCst);
            let r = std::panic::catch_unwind(std::panic::AssertUnwindSafe(op));
            let response = ticket.fetch_add(1, Ordering::SeqCst);
            match r {
                Ok(v) => recs.lock().unwrap().push(OpRec { thread: t, idx, invoke, response: Some(response), result: Some(v) }),
                Err(p) => {
                    let m = p.downcast_ref::<String>().cloned().or_else(|| p.downcast_ref::<&str>().map(|s| s.to_string())).unwrap_or_else(|| "panic".into());
                    *panic_msg.lock().unwrap() = Some(m);
                    return;
                }
            }
        }
    };
    std::thread::scope(|s| {
        for (t, ops) in workers.into_iter().enumerate() {
            let ready = &ready;
            let run_ops = &run_ops;
            s.spawn(move || {
                ready.fetch_add(1, Ordering::SeqCst);
                while ready.load(Ordering::SeqCst) < nworkers {
                    crate::iohelp::spin_or_yield();
                }
                run_ops(t, ops);
            });
        }
    });
    if let Some(ops) = finalizer {
        if panic_msg.lock().unwrap().is_none() {
            std::thread::scope(|s| {
                let run_ops = &run_ops;
                s.spawn(move || run_ops(n - 1, ops));
            });
        }
    }
    done.store(true, Ordering::SeqCst);
    let mut ops = recs.into_inner().unwrap();
    ops.sort_by_key(|o| o.invoke);
    let last = ticket.load(Ordering::SeqCst);
    let trace: Vec<TraceEv> = (0..last).map(|i| TraceEv { step: i, thread: 0, ann: Ann::Begin, outcome: None, spurious: false, op: None }).collect();
    let verdict = match panic_msg.into_inner().unwrap() {
        Some(m) => ExecVerdict::Panic(m),
        None => ExecVerdict::Completed,
    };
    Exec { ops, trace, verdict, switches: 0, preempt_inside_op: 0, spurious_injected: 0 }
}
