//! Independent reference parser for the Prometheus text exposition format 0.0.4, written from the
//! format description (DESIGN.md appendix B), sharing no code with the encoder under test.
//!
//! The parser produces the flat sequence of records (HELP / TYPE / sample lines) the document
//! consists of; blank lines and other comments are legal and skipped.

#[derive(Debug, Clone, PartialEq)]
pub enum Rec {
    Help { name: String, text: String },
    Type { name: String, ty: String },
    Sample { name: String, labels: Vec<(String, String)>, value: f64, ts: Option<i64> },
}

fn is_ws(c: u8) -> bool {
    c == b' ' || c == b'\t'
}

/// Go `strconv.ParseFloat`-style syntax (decimal forms, NaN, Inf/Infinity with optional sign).
pub fn parse_float(tok: &str) -> Result<f64, String> {
    if tok.is_empty() {
        return Err("empty float".into());
    }
    let (sign, body) = match tok.as_bytes()[0] {
        b'+' => (1.0, &tok[1..]),
        b'-' => (-1.0, &tok[1..]),
        _ => (1.0, tok),
    };
    let lower = body.to_ascii_lowercase();
    if lower == "inf" || lower == "infinity" {
        return Ok(sign * f64::INFINITY);
    }
    if lower == "nan" {
        return Ok(f64::NAN);
    }
    // decimal: digits [. digits] [e[+-]digits]  (at least one digit in the mantissa)
    let b = body.as_bytes();
    let mut i = 0;
    let mut digits = 0;
    while i < b.len() && b[i].is_ascii_digit() {
        i += 1;
        digits += 1;
    }
    if i < b.len() && b[i] == b'.' {
        i += 1;
        while i < b.len() && b[i].is_ascii_digit() {
            i += 1;
            digits += 1;
        }
    }
    if digits == 0 {
        return Err(format!("malformed float {:?}", tok));
    }
    if i < b.len() && (b[i] == b'e' || b[i] == b'E') {
        i += 1;
        if i < b.len() && (b[i] == b'+' || b[i] == b'-') {
            i += 1;
        }
        let st = i;
        while i < b.len() && b[i].is_ascii_digit() {
            i += 1;
        }
        if i == st {
            return Err(format!("malformed exponent {:?}", tok));
        }
    }
    if i != b.len() {
        return Err(format!("trailing garbage in float {:?}", tok));
    }
    tok.parse::<f64>().map_err(|e| format!("float {:?}: {}", tok, e))
}

fn unescape(s: &str, allow_quote: bool) -> Result<String, String> {
    let mut out = String::with_capacity(s.len());
    let mut it = s.chars();
    while let Some(c) = it.next() {
        if c == '\\' {
            match it.next() {
                Some('\\') => out.push('\\'),
                Some('n') => out.push('\n'),
                Some('"') if allow_quote => out.push('"'),
                Some(o) => return Err(format!("invalid escape sequence \\{}", o)),
                None => return Err("dangling backslash".into()),
            }
        } else {
            out.push(c);
        }
    }
    Ok(out)
}

fn valid_metric_name(s: &str) -> bool {
    let b = s.as_bytes();
    !b.is_empty()
        && (b[0].is_ascii_alphabetic() || b[0] == b'_' || b[0] == b':')
        && b.iter().all(|c| c.is_ascii_alphanumeric() || *c == b'_' || *c == b':')
}

fn valid_label_name(s: &str) -> bool {
    let b = s.as_bytes();
    !b.is_empty()
        && (b[0].is_ascii_alphabetic() || b[0] == b'_')
        && b.iter().all(|c| c.is_ascii_alphanumeric() || *c == b'_')
}

struct Cur<'a> {
    b: &'a [u8],
    s: &'a str,
    i: usize,
}

impl<'a> Cur<'a> {
    fn skip_ws(&mut self) -> usize {
        let st = self.i;
        while self.i < self.b.len() && is_ws(self.b[self.i]) {
            self.i += 1;
        }
        self.i - st
    }
    fn token(&mut self) -> &'a str {
        let st = self.i;
        while self.i < self.b.len() && !is_ws(self.b[self.i]) {
            self.i += 1;
        }
        &self.s[st..self.i]
    }
    fn peek(&self) -> Option<u8> {
        self.b.get(self.i).copied()
    }
    fn eof(&self) -> bool {
        self.i >= self.b.len()
    }
}

fn parse_sample(line: &str) -> Result<Rec, String> {
    let mut c = Cur { b: line.as_bytes(), s: line, i: 0 };
    c.skip_ws();
    let st = c.i;
    while c.i < c.b.len() && !is_ws(c.b[c.i]) && c.b[c.i] != b'{' {
        c.i += 1;
    }
    let name = &line[st..c.i];
    if !valid_metric_name(name) {
        return Err(format!("invalid metric name {:?} in sample line {:?}", name, line));
    }
    let mut labels = vec![];
    if c.peek() == Some(b'{') {
        c.i += 1;
        loop {
            c.skip_ws();
            if c.peek() == Some(b'}') {
                c.i += 1;
                break;
            }
            let st = c.i;
            while c.i < c.b.len() && c.b[c.i] != b'=' && !is_ws(c.b[c.i]) {
                c.i += 1;
            }
            let lname = &line[st..c.i];
            if !valid_label_name(lname) {
                return Err(format!("invalid label name {:?} in {:?}", lname, line));
            }
            c.skip_ws();
            if c.peek() != Some(b'=') {
                return Err(format!("expected '=' after label name in {:?}", line));
            }
            c.i += 1;
            c.skip_ws();
            if c.peek() != Some(b'"') {
                return Err(format!("expected '\"' to open label value in {:?}", line));
            }
            c.i += 1;
            let vst = c.i;
            loop {
                match c.peek() {
                    None => return Err(format!("unterminated label value in {:?}", line)),
                    Some(b'\\') => {
                        c.i += 2;
                    }
                    Some(b'"') => break,
                    Some(_) => c.i += 1,
                }
            }
            if c.i > c.b.len() {
                return Err(format!("dangling backslash at end of line {:?}", line));
            }
            let raw = &line[vst..c.i];
            c.i += 1; // closing quote
            labels.push((lname.to_string(), unescape(raw, true)?));
            c.skip_ws();
            match c.peek() {
                Some(b',') => {
                    c.i += 1;
                }
                Some(b'}') => {
                    c.i += 1;
                    break;
                }
                _ => return Err(format!("expected ',' or '}}' after label value in {:?}", line)),
            }
        }
    }
    if c.skip_ws() == 0 {
        return Err(format!("expected blank before value in {:?}", line));
    }
    let vt = c.token();
    let value = parse_float(vt)?;
    c.skip_ws();
    let mut ts = None;
    if !c.eof() {
        let t = c.token();
        ts = Some(t.parse::<i64>().map_err(|e| format!("timestamp {:?}: {}", t, e))?);
        c.skip_ws();
        if !c.eof() {
            return Err(format!("trailing garbage after timestamp in {:?}", line));
        }
    }
    Ok(Rec::Sample { name: name.to_string(), labels, value, ts })
}

pub fn parse(doc: &str) -> Result<Vec<Rec>, String> {
    let mut out = vec![];
    if doc.is_empty() {
        return Ok(out);
    }
    if !doc.ends_with('\n') {
        return Err("last line is not terminated by a newline".into());
    }
    let body = &doc[..doc.len() - 1];
    for line in body.split('\n') {
        let trimmed = line.trim_start_matches(|c| c == ' ' || c == '\t');
        if trimmed.is_empty() {
            continue;
        }
        if let Some(rest) = trimmed.strip_prefix('#') {
            let mut c = Cur { b: rest.as_bytes(), s: rest, i: 0 };
            c.skip_ws();
            let kw = c.token();
            if kw == "HELP" {
                if c.skip_ws() == 0 {
                    return Err(format!("malformed HELP line {:?}", line));
                }
                let name = c.token();
                if !valid_metric_name(name) {
                    return Err(format!("invalid metric name in HELP line {:?}", line));
                }
                // exactly one separator blank, the rest is the docstring verbatim
                let text = if c.eof() {
                    ""
                } else {
                    c.i += 1;
                    &rest[c.i..]
                };
                out.push(Rec::Help { name: name.to_string(), text: unescape(text, false)? });
            } else if kw == "TYPE" {
                if c.skip_ws() == 0 {
                    return Err(format!("malformed TYPE line {:?}", line));
                }
                let name = c.token();
                if !valid_metric_name(name) {
                    return Err(format!("invalid metric name in TYPE line {:?}", line));
                }
                c.skip_ws();
                let ty = c.token();
                c.skip_ws();
                if !c.eof() {
                    return Err(format!("trailing garbage in TYPE line {:?}", line));
                }
                if !["counter", "gauge", "histogram", "summary", "untyped"].contains(&ty) {
                    return Err(format!("unknown type {:?} in TYPE line", ty));
                }
                out.push(Rec::Type { name: name.to_string(), ty: ty.to_string() });
            }
            // any other comment is legal and carries nothing
            continue;
        }
        out.push(parse_sample(line)?);
    }
    Ok(out)
}

#[cfg(test)]
mod tests {
    use super::*;
    #[test]
    fn basics() {
        let d = "# HELP a some \\\\ help\\n2\n# TYPE a counter\na{x=\"q\\\"\\\\\\n\",} 1 5\n\n# c\na_b 2e3\n";
        let r = parse(d).unwrap();
        assert_eq!(r.len(), 4);
        assert_eq!(r[0], Rec::Help { name: "a".into(), text: "some \\ help\n2".into() });
        assert_eq!(
            r[2],
            Rec::Sample { name: "a".into(), labels: vec![("x".into(), "q\"\\\n".into())], value: 1.0, ts: Some(5) }
        );
        assert!(parse("a 1").is_err());
        assert!(parse("a{x=\"\\q\"} 1\n").is_err());
        assert!(parse("a{x=\"1\"}1\n").is_err());
        assert_eq!(parse_float("+Inf").unwrap(), f64::INFINITY);
        assert_eq!(parse_float("-inf").unwrap(), f64::NEG_INFINITY);
        assert!(parse_float("NaN").unwrap().is_nan());
        assert!(parse_float("1e").is_err());
        assert!(parse_float("").is_err());
    }
}
