//! Registry scenarios: a declarative set of collectors built from this library's metric types,
//! with the samples each must contribute. Shared by C07 (gather is complete, ordered, deterministic)
//! and C14 (families never mix types).

use std::collections::{BTreeMap, HashMap};

use prometheus::core::Collector;
use prometheus::{
    Counter, CounterVec, Gauge, GaugeVec, Histogram, HistogramOpts, HistogramVec, IntCounter, IntCounterVec, IntGauge,
    IntGaugeVec, Opts, PullingGauge, Registry,
};

use crate::neutral::{NFamily, NSample, NType, NValue};
use crate::pools::{distinct, VALUE_FRAGS};
use crate::src::Src;

#[derive(Clone, Copy, Debug, PartialEq, Eq, PartialOrd, Ord)]
pub enum Kind {
    Counter,
    IntCounter,
    Gauge,
    IntGauge,
    Histogram,
    Pulling,
    CounterVec,
    IntCounterVec,
    GaugeVec,
    IntGaugeVec,
    HistogramVec,
}

pub const KINDS: &[Kind] = &[
    Kind::Counter,
    Kind::CounterVec,
    Kind::Gauge,
    Kind::Histogram,
    Kind::IntCounter,
    Kind::IntGauge,
    Kind::Pulling,
    Kind::IntCounterVec,
    Kind::GaugeVec,
    Kind::IntGaugeVec,
    Kind::HistogramVec,
];

impl Kind {
    pub fn is_vec(self) -> bool {
        matches!(self, Kind::CounterVec | Kind::IntCounterVec | Kind::GaugeVec | Kind::IntGaugeVec | Kind::HistogramVec)
    }
    pub fn ntype(self) -> NType {
        match self {
            Kind::Counter | Kind::IntCounter | Kind::CounterVec | Kind::IntCounterVec => NType::Counter,
            Kind::Gauge | Kind::IntGauge | Kind::Pulling | Kind::GaugeVec | Kind::IntGaugeVec => NType::Gauge,
            Kind::Histogram | Kind::HistogramVec => NType::Histogram,
        }
    }
}

/// Bucket configurations used by histogram collectors (as configured; a trailing +Inf is dropped by the
/// library and an empty list selects the default buckets).
pub const HIST_CONFIGS: &[&[f64]] = &[&[1.0, 4.0], &[f64::INFINITY], &[], &[0.5], &[1.0, 4.0, f64::INFINITY], &[-1.0, 3.0]];

pub fn adjusted_bounds(cfg: &[f64]) -> Vec<f64> {
    crate::props::c08::accept(cfg).expect("scenario bucket configurations are valid")
}

#[derive(Clone, Debug)]
pub struct CollSpec {
    pub kind: Kind,
    pub name: String,
    pub help: String,
    pub consts: BTreeMap<String, String>,
    pub vars: Vec<String>,
    /// scalar: one entry with an empty tuple; vector: one entry per child
    pub children: Vec<(Vec<String>, u32)>, // (label values, integer payload seed >= 1)
    /// histogram kinds: index into HIST_CONFIGS
    pub hist_cfg: usize,
}

#[derive(Clone, Debug)]
pub struct Scenario {
    pub colls: Vec<CollSpec>,
    pub prefix: Option<String>,
    pub common: Option<BTreeMap<String, String>>,
    /// collectors registered together as ONE composite collector (everything else is registered on its own)
    pub bundles: Vec<Bundle>,
}

/// A composite collector, the way an application bundles the metrics of one subsystem: `desc()` lists the descriptors of
/// the members in member order, `collect()` returns their families in another (generated) order - the trait promises no
/// correspondence between the two.
#[derive(Clone, Debug)]
pub struct Bundle {
    pub members: Vec<usize>,
    pub collect_order: Vec<usize>,
    /// the members live in a registry of their own (no prefix, no labels) and `collect()` is a gather() of that registry, made
    /// from inside the outer gather on the same thread ("expose a sub-registry as one collector")
    pub nested: bool,
}

/// Prefix of the registries that nested composite collectors gather (it collides with no name of the pool).
pub const NESTED_PREFIX: &str = "nested";

impl Scenario {
    /// The scenario as the outer registry exposes it: members of a nested composite collector appear under the prefix of
    /// their own registry; composite collectors as such leave no trace.
    pub fn effective(&self) -> Scenario {
        let mut e = self.clone();
        for b in &self.bundles {
            if b.nested {
                for &m in &b.members {
                    e.colls[m].name = format!("{}_{}", NESTED_PREFIX, self.colls[m].name);
                }
            }
        }
        e.bundles.clear();
        e
    }
}

struct BundleColl {
    parts: Vec<Box<dyn Collector>>,
    order: Vec<usize>,
    descs: Vec<prometheus::core::Desc>,
    sub: Option<Registry>,
}

impl Collector for BundleColl {
    fn desc(&self) -> Vec<&prometheus::core::Desc> {
        self.descs.iter().collect()
    }
    fn collect(&self) -> Vec<prometheus::proto::MetricFamily> {
        match &self.sub {
            Some(r) => r.gather(),
            None => self.order.iter().flat_map(|&i| self.parts[i].collect()).collect(),
        }
    }
}

// (the last two names have the same 64-bit FNV-1a hash, see pools::FNV64_COLLISION)
const NAMES: &[&str] = &["a", "a_b", "ab", "a_total", "b", "a_b_c", "aa", "z", "b_a", "c", "total", "mqhmlpemtukl3g", "mjopqa3bdnatil"];

/// Both names of the known FNV-1a collision are in the scenario with equal constant-label values: their descriptors then
/// have the same id and the second registration is refused (the known finding recorded under C15); such scenarios are
/// excluded, scenarios where the constant-label values differ are not.
pub fn collision_pair_blocks_registration(s: &Scenario) -> bool {
    let (x, y) = crate::pools::FNV64_COLLISION;
    let vals = |n: &str| -> Vec<Vec<String>> { s.colls.iter().filter(|c| c.name == n).map(|c| c.consts.values().cloned().collect()).collect() };
    let (vx, vy) = (vals(x), vals(y));
    vx.iter().any(|v| vy.contains(v))
}
const HELPS: &[&str] = &["h", "help b", "é"];
const CNAMES: &[&str] = &["c", "a", "zz", "k"];
const VNAMES: &[&str] = &["b", "l", "y", "aa"];
const COMMON: &[&str] = &["r1", "env", "dc", "a0", "zone"];

pub fn value_for(kind: Kind, seed: u32) -> NValue {
    value_for_cfg(kind, seed, 0)
}

/// A payload seed is a running number (low 24 bits) plus a value class (high bits): 0 ordinary, 1 NaN, 2 +Inf, 3 -Inf,
/// 4 -0.0, 5 the smallest subnormal, 6 1e300 - for the float kinds that can legally hold such a value.
pub fn float_gauge_value(seed: u32) -> f64 {
    match seed >> 24 {
        1 => f64::NAN,
        2 => f64::INFINITY,
        3 => f64::NEG_INFINITY,
        4 => -0.0,
        5 => f64::from_bits(1),
        6 => 1e300,
        _ => -((seed & 0xFF_FFFF) as f64 + 0.5),
    }
}

pub fn float_counter_value(seed: u32) -> f64 {
    match seed >> 24 {
        2 => f64::INFINITY,
        5 => f64::from_bits(1),
        6 => 1e300,
        _ => (seed & 0xFF_FFFF) as f64 + 0.25,
    }
}

/// Number of 1.0 observations fed to a histogram child (plus one 3.0).
pub fn hist_ones(seed: u32) -> u64 {
    ((seed & 0xFF_FFFF) % 23) as u64
}

pub fn value_for_cfg(kind: Kind, seed: u32, hist_cfg: usize) -> NValue {
    let s = (seed & 0xFF_FFFF) as f64;
    match kind {
        Kind::Counter | Kind::CounterVec => NValue::Counter(float_counter_value(seed)),
        Kind::IntCounter | Kind::IntCounterVec => NValue::Counter(s),
        Kind::Gauge | Kind::GaugeVec | Kind::Pulling => NValue::Gauge(float_gauge_value(seed)),
        Kind::IntGauge | Kind::IntGaugeVec => NValue::Gauge(-s),
        Kind::Histogram | Kind::HistogramVec => {
            // observations: `hist_ones(seed)` times 1.0 and once 3.0
            let n = hist_ones(seed);
            let s = n as f64;
            let buckets = adjusted_bounds(HIST_CONFIGS[hist_cfg])
                .into_iter()
                .map(|b| (b, (if 1.0 <= b { n } else { 0 }) + (if 3.0 <= b { 1 } else { 0 })))
                .collect();
            NValue::Histogram { count: n + 1, sum: s + 3.0, buckets }
        }
    }
}

/// `allow_mixed`: let collectors of different kinds share a name (C14's known-finding class).
pub fn gen_scenario(src: &mut Src, allow_mixed: bool) -> Scenario {
    let mut ngroups = 1 + src.below(4);
    if ngroups == 4 && src.chance(40) {
        // occasionally many families (the library imposes no limit; sorting and merging code has size thresholds)
        ngroups += src.below(NAMES.len() - 3);
    }
    let names = distinct(src, NAMES, ngroups);
    let mut colls = vec![];
    let mut seed = 0u32;
    for name in names {
        let kind = *src.pick(KINDS);
        let help = src.pick(HELPS).to_string();
        let ncn = if kind == Kind::Pulling { 0 } else { src.below(3) };
        let cnames: Vec<String> = distinct(src, CNAMES, ncn).into_iter().map(String::from).collect();
        let nvn = if kind.is_vec() { 1 + src.below(2) } else { 0 };
        let vnames: Vec<String> = distinct(src, VNAMES, nvn).into_iter().map(String::from).collect();
        let ncoll = if cnames.is_empty() { 1 } else { 1 + src.below(3) };
        let mut used: Vec<Vec<String>> = vec![];
        for ci in 0..ncoll {
            let vals: Vec<String> = cnames.iter().map(|_| src.text(VALUE_FRAGS, 2)).collect();
            if used.contains(&vals) {
                continue;
            }
            used.push(vals.clone());
            let mut k = kind;
            if allow_mixed && ci > 0 {
                // another kind with the same label dimensions
                let same_shape: Vec<Kind> = KINDS.iter().copied().filter(|x| x.is_vec() == kind.is_vec() && *x != Kind::Pulling).collect();
                k = *src.pick(&same_shape);
            }
            let consts: BTreeMap<String, String> = cnames.iter().cloned().zip(vals).collect();
            let mut children = vec![];
            if k.is_vec() {
                let mut nch = src.below(7);
                let mut bulk = 0usize;
                if nch == 6 && src.chance(48) {
                    // occasionally many children (more than the 20 elements up to which slices are insertion-sorted)
                    nch += src.below(60);
                    if src.chance(64) {
                        // rarely: hundreds to thousands (label values are scrambled numbers, so collection order, hash
                        // order and sorted order all differ)
                        bulk = 300 + src.below(1500);
                    }
                }
                let mut seen: Vec<Vec<String>> = vec![];
                for _ in 0..nch {
                    let t: Vec<String> = vnames.iter().map(|_| src.text(VALUE_FRAGS, 2)).collect();
                    if seen.contains(&t) {
                        continue;
                    }
                    seen.push(t.clone());
                    seed += 1;
                    let class = if src.chance(20) { 1 + src.below(6) as u32 } else { 0 };
                    children.push((t, seed | (class << 24)));
                }
                if bulk > 0 {
                    let have: std::collections::HashSet<Vec<String>> = seen.iter().cloned().collect();
                    for k in 0..bulk {
                        let t: Vec<String> = (0..vnames.len()).map(|j| format!("{}", (k * 7919 + j * 31 + 13) % 10007)).collect();
                        if have.contains(&t) {
                            continue;
                        }
                        seed += 1;
                        children.push((t, seed));
                    }
                }
            } else {
                seed += 1;
                let class = if src.chance(20) { 1 + src.below(6) as u32 } else { 0 };
                children.push((vec![], seed | (class << 24)));
            }
            let hist_cfg = if matches!(k, Kind::Histogram | Kind::HistogramVec) { src.below(HIST_CONFIGS.len()) } else { 0 };
            colls.push(CollSpec { kind: k, name: name.to_string(), help: help.clone(), consts, vars: vnames.clone(), children, hist_cfg });
        }
    }
    // prefixes include strings that are themselves the head of other metric names in the pool, so that
    // "<prefix>_<x>" and an unprefixed "<prefix>_<x>" meet (a / a_b / a_total, a_b / a_b_c)
    let prefix = match src.below(6) {
        0 | 1 => None,
        2 => Some("p".to_string()),
        3 => Some("ns:x_1".to_string()),
        4 => Some("a".to_string()),
        _ => Some("a_b".to_string()),
    };
    let ncommon = src.below(5);
    let common = if ncommon == 0 && src.chance(128) {
        None
    } else {
        let cn = distinct(src, COMMON, ncommon);
        Some(cn.into_iter().map(|n| (n.to_string(), src.text(VALUE_FRAGS, 2))).collect())
    };
    let mut bundles = vec![];
    if colls.len() >= 2 && src.chance(44) {
        let mut free: Vec<usize> = (0..colls.len()).collect();
        for _ in 0..1 + src.below(2) {
            if free.len() < 2 {
                break;
            }
            let mut members = vec![];
            let mut rest = vec![];
            for &i in &free {
                if members.len() < 2 || src.chance(128) {
                    members.push(i);
                } else {
                    rest.push(i);
                }
            }
            free = rest;
            // member order is generated too (it is the descriptor order)
            let p = src.perm(members.len());
            let members: Vec<usize> = p.iter().map(|&k| members[k]).collect();
            let collect_order = src.perm(members.len());
            bundles.push(Bundle { members, collect_order, nested: src.chance(64) });
        }
    }
    Scenario { colls, prefix, common, bundles }
}

fn opts_of(c: &CollSpec) -> Opts {
    let mut o = Opts::new(c.name.clone(), c.help.clone());
    for (k, v) in &c.consts {
        o = o.const_label(k.clone(), v.clone());
    }
    o
}

fn hist_feed(h: &Histogram, seed: u32) {
    for _ in 0..hist_ones(seed) {
        h.observe(1.0);
    }
    h.observe(3.0);
}

/// A second handle to a registered metric, for changing it after a gather.
#[derive(Clone)]
pub enum Handle {
    Fixed,
    G(Gauge),
    IG(IntGauge),
    CV(CounterVec),
    ICV(IntCounterVec),
    GV(GaugeVec),
    IGV(IntGaugeVec),
    HV(HistogramVec),
}

impl Handle {
    pub fn is_vec(&self) -> bool {
        matches!(self, Handle::CV(_) | Handle::ICV(_) | Handle::GV(_) | Handle::IGV(_) | Handle::HV(_))
    }
    /// Give the child `t` (created if need be; it must be fresh or a gauge) the payload `seed`.
    pub fn feed(&self, t: &[String], seed: u32) {
        match self {
            Handle::Fixed => {}
            Handle::G(m) => m.set(float_gauge_value(seed)),
            Handle::IG(m) => m.set(-((seed & 0xFF_FFFF) as i64)),
            Handle::CV(m) => m.with_label_values(t).inc_by(float_counter_value(seed)),
            Handle::ICV(m) => m.with_label_values(t).inc_by((seed & 0xFF_FFFF) as u64),
            Handle::GV(m) => m.with_label_values(t).set(float_gauge_value(seed)),
            Handle::IGV(m) => m.with_label_values(t).set(-((seed & 0xFF_FFFF) as i64)),
            Handle::HV(m) => hist_feed(&m.with_label_values(t), seed),
        }
    }
    pub fn reset(&self) {
        match self {
            Handle::CV(m) => m.reset(),
            Handle::ICV(m) => m.reset(),
            Handle::GV(m) => m.reset(),
            Handle::IGV(m) => m.reset(),
            Handle::HV(m) => m.reset(),
            _ => {}
        }
    }
    pub fn remove(&self, t: &[String]) -> bool {
        let t: Vec<&str> = t.iter().map(|x| x.as_str()).collect();
        match self {
            Handle::CV(m) => m.remove_label_values(&t).is_ok(),
            Handle::ICV(m) => m.remove_label_values(&t).is_ok(),
            Handle::GV(m) => m.remove_label_values(&t).is_ok(),
            Handle::IGV(m) => m.remove_label_values(&t).is_ok(),
            Handle::HV(m) => m.remove_label_values(&t).is_ok(),
            _ => false,
        }
    }
}

pub fn build_collector(c: &CollSpec) -> Box<dyn Collector> {
    build_collector_h(c).0
}

pub fn build_collector_h(c: &CollSpec) -> (Box<dyn Collector>, Handle) {
    let names: Vec<&str> = c.vars.iter().map(|s| s.as_str()).collect();
    match c.kind {
        Kind::Counter => {
            let m = Counter::with_opts(opts_of(c)).unwrap();
            m.inc_by(float_counter_value(c.children[0].1));
            (Box::new(m.clone()), Handle::Fixed)
        }
        Kind::IntCounter => {
            let m = IntCounter::with_opts(opts_of(c)).unwrap();
            m.inc_by((c.children[0].1 & 0xFF_FFFF) as u64);
            (Box::new(m.clone()), Handle::Fixed)
        }
        Kind::Gauge => {
            let m = Gauge::with_opts(opts_of(c)).unwrap();
            m.set(float_gauge_value(c.children[0].1));
            (Box::new(m.clone()), Handle::G(m))
        }
        Kind::IntGauge => {
            let m = IntGauge::with_opts(opts_of(c)).unwrap();
            m.set(-((c.children[0].1 & 0xFF_FFFF) as i64));
            (Box::new(m.clone()), Handle::IG(m))
        }
        Kind::Histogram => {
            let m = Histogram::with_opts(HistogramOpts::from(opts_of(c)).buckets(HIST_CONFIGS[c.hist_cfg].to_vec())).unwrap();
            hist_feed(&m, c.children[0].1);
            (Box::new(m.clone()), Handle::Fixed)
        }
        Kind::Pulling => {
            let v = float_gauge_value(c.children[0].1);
            (Box::new(PullingGauge::new(c.name.clone(), c.help.clone(), Box::new(move || v)).unwrap()), Handle::Fixed)
        }
        Kind::CounterVec => {
            let m = CounterVec::new(opts_of(c), &names).unwrap();
            for (t, s) in &c.children {
                m.with_label_values(t).inc_by(float_counter_value(*s));
            }
            (Box::new(m.clone()), Handle::CV(m))
        }
        Kind::IntCounterVec => {
            let m = IntCounterVec::new(opts_of(c), &names).unwrap();
            for (t, s) in &c.children {
                m.with_label_values(t).inc_by((*s & 0xFF_FFFF) as u64);
            }
            (Box::new(m.clone()), Handle::ICV(m))
        }
        Kind::GaugeVec => {
            let m = GaugeVec::new(opts_of(c), &names).unwrap();
            for (t, s) in &c.children {
                m.with_label_values(t).set(float_gauge_value(*s));
            }
            (Box::new(m.clone()), Handle::GV(m))
        }
        Kind::IntGaugeVec => {
            let m = IntGaugeVec::new(opts_of(c), &names).unwrap();
            for (t, s) in &c.children {
                m.with_label_values(t).set(-((*s & 0xFF_FFFF) as i64));
            }
            (Box::new(m.clone()), Handle::IGV(m))
        }
        Kind::HistogramVec => {
            let m = HistogramVec::new(HistogramOpts::from(opts_of(c)).buckets(HIST_CONFIGS[c.hist_cfg].to_vec()), &names).unwrap();
            for (t, s) in &c.children {
                hist_feed(&m.with_label_values(t), *s);
            }
            (Box::new(m.clone()), Handle::HV(m))
        }
    }
}

/// Build the scenario in a fresh registry, registering in the given order.
pub fn build(s: &Scenario, order: &[usize]) -> Result<Registry, String> {
    build_h(s, order).map(|x| x.0)
}

/// ... and hand out a second handle to every collector (by index into `s.colls`).
pub fn build_h(s: &Scenario, order: &[usize]) -> Result<(Registry, Vec<Handle>), String> {
    let mut handles: Vec<Handle> = vec![Handle::Fixed; s.colls.len()];
    let common: Option<HashMap<String, String>> = s.common.as_ref().map(|m| m.iter().map(|(k, v)| (k.clone(), v.clone())).collect());
    let reg = Registry::new_custom(s.prefix.clone(), common).map_err(|e| format!("new_custom: {}", e))?;
    let mut done = vec![false; s.bundles.len()];
    for &i in order {
        match s.bundles.iter().position(|b| b.members.contains(&i)) {
            None => {
                let (c, h) = build_collector_h(&s.colls[i]);
                handles[i] = h;
                reg.register(c).map_err(|e| format!("register #{}: {}", i, e))?
            }
            // a bundle is registered when the first of its members comes up
            Some(b) if !done[b] => {
                done[b] = true;
                let bundle = &s.bundles[b];
                let mut parts = vec![];
                for &m in &bundle.members {
                    let (c, h) = build_collector_h(&s.colls[m]);
                    handles[m] = h;
                    parts.push(c);
                }
                let descs: Vec<prometheus::core::Desc> = parts.iter().flat_map(|p| p.desc().into_iter().cloned()).collect();
                let mut coll = BundleColl { parts, order: bundle.collect_order.clone(), descs, sub: None };
                if bundle.nested {
                    let sub = Registry::new_custom(Some(NESTED_PREFIX.to_string()), None).map_err(|e| e.to_string())?;
                    for p in coll.parts.drain(..) {
                        sub.register(p).map_err(|e| format!("register a member of {:?} in its own registry: {}", bundle, e))?;
                    }
                    coll.sub = Some(sub);
                }
                reg.register(Box::new(coll)).map_err(|e| format!("register bundle {:?}: {}", bundle, e))?
            }
            Some(_) => {}
        }
    }
    Ok((reg, handles))
}

/// Rename one registry common label to a label name that a collector of the scenario uses itself (constant or variable). The
/// registry applies its common labels regardless (the sample then carries the name twice - C09's known finding, which is
/// about the validity of the exposition; what C07 states, "common labels applied to every sample", holds there too).
pub fn add_common_clash(src: &mut Src, s: &mut Scenario) -> bool {
    let own: Vec<String> = s.colls.iter().flat_map(|c| c.consts.keys().cloned().chain(c.vars.iter().cloned())).collect();
    let Some(common) = s.common.as_mut() else { return false };
    if own.is_empty() || common.is_empty() {
        return false;
    }
    let target = own[src.below(own.len())].clone();
    if common.contains_key(&target) {
        return false;
    }
    let victim = common.keys().nth(src.below(common.len())).unwrap().clone();
    let v = common.remove(&victim).unwrap();
    common.insert(target, v);
    true
}

/// Change the registered metrics through their second handles (generated: vectors are reset and refilled with the same tuples and new
/// payloads, reset and left empty, lose one child or gain one; gauges are set again) and return the scenario that describes the new state.
pub fn mutate(src: &mut Src, s: &Scenario, handles: &mut Vec<Handle>, reg: &Registry) -> (Scenario, Vec<String>) {
    let mut s2 = s.clone();
    let mut log = vec![];
    let mut fresh = 900_000u32;
    // a quarter of the epochs (scenarios without composite collectors): one collector is unregistered, and in half of these
    // registered again at once (its metric keeps its state)
    if s2.bundles.is_empty() && s2.colls.len() >= 2 && src.chance(64) {
        let k = src.below(s2.colls.len());
        match reg.unregister(build_collector(&s2.colls[k])) {
            Ok(()) => {
                if src.chance(128) {
                    let (c, h) = build_collector_h(&s2.colls[k]);
                    match reg.register(c) {
                        Ok(()) => {
                            handles[k] = h;
                            log.push(format!("#{} unregistered and a collector with the same descriptor and contents registered", k));
                        }
                        Err(e) => log.push(format!("#{} unregistered; REGISTERING IT AGAIN FAILED: {}", k, e)),
                    }
                } else {
                    s2.colls.remove(k);
                    handles.remove(k);
                    log.push(format!("#{} unregistered", k));
                }
            }
            Err(e) => log.push(format!("UNREGISTER OF #{} FAILED: {}", k, e)),
        }
    }
    for (i, (c, h)) in s2.colls.iter_mut().zip(handles.iter()).enumerate() {
        if matches!(h, Handle::Fixed) || !src.chance(150) {
            continue;
        }
        if !h.is_vec() {
            fresh += 1;
            c.children[0].1 = fresh;
            h.feed(&[], fresh);
            log.push(format!("#{} set again", i));
            continue;
        }
        match src.below(4) {
            0 => {
                h.reset();
                for ch in c.children.iter_mut() {
                    fresh += 1;
                    ch.1 = fresh;
                    h.feed(&ch.0, fresh);
                }
                log.push(format!("#{} reset and refilled ({} children)", i, c.children.len()));
            }
            1 => {
                h.reset();
                c.children.clear();
                log.push(format!("#{} reset", i));
            }
            2 if !c.children.is_empty() => {
                let k = src.below(c.children.len());
                let (t, _) = c.children.remove(k);
                let ok = h.remove(&t);
                log.push(format!("#{} removed {:?} -> {}", i, t, ok));
            }
            _ => {
                let t: Vec<String> = c.vars.iter().map(|_| "\u{1}new".to_string()).collect();
                if !c.children.iter().any(|ch| ch.0 == t) {
                    fresh += 1;
                    h.feed(&t, fresh);
                    c.children.push((t, fresh));
                    log.push(format!("#{} gained a child", i));
                }
            }
        }
    }
    (s2, log)
}

/// The gathered result the statement prescribes (labels of every sample sorted by name; the
/// order of labels inside a sample is not prescribed, so comparisons sort both sides).
pub fn expected(s: &Scenario) -> Vec<NFamily> {
    let mut by_name: BTreeMap<String, Vec<&CollSpec>> = BTreeMap::new();
    for c in &s.colls {
        by_name.entry(c.name.clone()).or_default().push(c);
    }
    let mut out = vec![];
    for (name, cs) in by_name {
        let mut samples: Vec<(Vec<(String, String)>, NValue)> = vec![];
        for c in &cs {
            for (t, seed) in &c.children {
                let mut labels: Vec<(String, String)> = c.vars.iter().cloned().zip(t.iter().cloned()).collect();
                labels.extend(c.consts.iter().map(|(k, v)| (k.clone(), v.clone())));
                labels.sort();
                samples.push((labels, value_for_cfg(c.kind, *seed, c.hist_cfg)));
            }
        }
        if samples.is_empty() {
            continue;
        }
        // lexicographic by label values, position-wise in label-name order
        samples.sort_by(|a, b| {
            let va: Vec<&String> = a.0.iter().map(|x| &x.1).collect();
            let vb: Vec<&String> = b.0.iter().map(|x| &x.1).collect();
            va.cmp(&vb)
        });
        let full = match &s.prefix {
            Some(p) => format!("{}_{}", p, name),
            None => name.clone(),
        };
        let ns: Vec<NSample> = samples
            .into_iter()
            .map(|(mut labels, value)| {
                if let Some(cm) = &s.common {
                    labels.extend(cm.iter().map(|(k, v)| (k.clone(), v.clone())));
                }
                NSample { labels, value, ts: 0 }
            })
            .collect();
        out.push(NFamily { name: full, help: cs[0].help.clone(), ty: cs[0].kind.ntype(), samples: ns });
    }
    // strictly increasing (prefixed) name order
    out.sort_by(|a, b| a.name.cmp(&b.name));
    out
}

pub fn describe(s: &Scenario) -> String {
    let cs: Vec<String> = s
        .colls
        .iter()
        .map(|c| format!("{:?} {}{{{:?}}} vars={:?} children={:?}", c.kind, c.name, c.consts, c.vars, c.children))
        .collect();
    format!("prefix={:?} common={:?} bundles={:?} :: {}", s.prefix, s.common, s.bundles, cs.join(" | "))
}
