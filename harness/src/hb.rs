//! Happens-before monitor over a scheduler trace (DESIGN.md §3.3).
//!
//! The executions the scheduler produces are sequentially consistent, so a weak-memory anomaly can
//! never be observed directly. But every hooked operation reports its memory-ordering argument, so
//! the monitor rebuilds the C++11 happens-before relation of the execution with vector clocks:
//! release stores / RMWs publish the thread's clock into the location's release clock (an RMW of any
//! ordering continues a release sequence, a plain relaxed store ends it), acquire loads / RMWs join
//! it, lock release / acquire likewise.
//!
//! Invariant checked: every `swap` access (the collector's read-and-reset of a shard's sum and
//! buckets) is ordered by happens-before with every access to the same location by another thread;
//! for earlier accesses the order must already be established when the swapping thread passed its
//! gate (its latest successful compare-exchange in the same operation: the count hand-off).

use std::collections::HashMap;
use std::sync::atomic::Ordering;

use crate::sched::{Ann, Kind, TraceEv};

type VC = Vec<u64>;

fn join(a: &mut VC, b: &VC) {
    for (x, y) in a.iter_mut().zip(b) {
        if *y > *x {
            *x = *y;
        }
    }
}

fn acq(o: Ordering) -> bool {
    matches!(o, Ordering::Acquire | Ordering::AcqRel | Ordering::SeqCst)
}
fn rel(o: Ordering) -> bool {
    matches!(o, Ordering::Release | Ordering::AcqRel | Ordering::SeqCst)
}

struct Access {
    /// For a swap: the accessing thread's clock at its most recent successful compare-exchange in
    /// the same operation (the "gate" that told it the location is quiescent), if there is one.
    gate: Option<VC>,
    thread: usize,
    stamp: u64, // the accessing thread's own clock component at the access
    clock: VC,  // its full clock right after the access (after any acquire join)
    kind: Kind,
    trace_idx: usize,
}

pub struct HbReport {
    pub swaps_checked: usize,
    pub pairs_checked: usize,
    /// (description) of the first unordered pair, if any
    pub violation: Option<String>,
}

pub fn check(trace: &[TraceEv], nthreads: usize) -> HbReport {
    let mut clocks: Vec<VC> = (0..nthreads).map(|_| vec![0; nthreads]).collect();
    let mut relclk: HashMap<usize, VC> = HashMap::new();
    let mut lockclk: HashMap<usize, VC> = HashMap::new();
    let mut accesses: HashMap<usize, Vec<Access>> = HashMap::new();
    let mut swapped: Vec<usize> = vec![];
    // per thread: (operation index, clock) at its latest successful compare-exchange
    let mut gates: Vec<Option<(Option<usize>, VC)>> = vec![None; nthreads];

    for (ti, ev) in trace.iter().enumerate() {
        let Ann::Sync(e) = &ev.ann else { continue };
        let t = ev.thread;
        clocks[t][t] += 1;
        match e.kind {
            Kind::MutexLock | Kind::RwWrite | Kind::RwRead => {
                if let Some(l) = lockclk.get(&e.addr) {
                    let l = l.clone();
                    join(&mut clocks[t], &l);
                }
                continue;
            }
            Kind::MutexUnlock | Kind::RwWriteUnlock | Kind::RwReadUnlock => {
                let c = clocks[t].clone();
                join(lockclk.entry(e.addr).or_insert_with(|| vec![0; nthreads]), &c);
                continue;
            }
            _ => {}
        }
        let Some(o) = &ev.outcome else { continue };
        match e.kind {
            Kind::Load => {
                if acq(e.success) {
                    if let Some(r) = relclk.get(&e.addr) {
                        let r = r.clone();
                        join(&mut clocks[t], &r);
                    }
                }
            }
            Kind::Store => {
                if rel(e.success) {
                    relclk.insert(e.addr, clocks[t].clone());
                } else {
                    relclk.remove(&e.addr);
                }
            }
            Kind::Swap | Kind::FetchAdd | Kind::FetchSub => {
                if acq(e.success) {
                    if let Some(r) = relclk.get(&e.addr) {
                        let r = r.clone();
                        join(&mut clocks[t], &r);
                    }
                }
                if rel(e.success) {
                    let c = clocks[t].clone();
                    join(relclk.entry(e.addr).or_insert_with(|| vec![0; nthreads]), &c);
                }
                // a non-release RMW leaves the release sequence intact
            }
            Kind::CasWeak => {
                if o.ok {
                    if acq(e.success) {
                        if let Some(r) = relclk.get(&e.addr) {
                            let r = r.clone();
                            join(&mut clocks[t], &r);
                        }
                    }
                    if rel(e.success) {
                        let c = clocks[t].clone();
                        join(relclk.entry(e.addr).or_insert_with(|| vec![0; nthreads]), &c);
                    }
                } else if acq(e.failure) {
                    if let Some(r) = relclk.get(&e.addr) {
                        let r = r.clone();
                        join(&mut clocks[t], &r);
                    }
                }
            }
            _ => {}
        }
        if e.kind == Kind::Swap && !swapped.contains(&e.addr) {
            swapped.push(e.addr);
        }
        if e.kind == Kind::CasWeak && o.ok {
            gates[t] = Some((ev.op, clocks[t].clone()));
        }
        let gate = match (&gates[t], e.kind) {
            (Some((op, c)), Kind::Swap) if *op == ev.op => Some(c.clone()),
            _ => None,
        };
        accesses.entry(e.addr).or_default().push(Access { gate, thread: t, stamp: clocks[t][t], clock: clocks[t].clone(), kind: e.kind, trace_idx: ti });
    }

    let mut rep = HbReport { swaps_checked: 0, pairs_checked: 0, violation: None };
    for addr in swapped {
        let acc = &accesses[&addr];
        for (j, b) in acc.iter().enumerate() {
            for a in acc[..j].iter() {
                if a.thread == b.thread {
                    continue;
                }
                if a.kind != Kind::Swap && b.kind != Kind::Swap {
                    continue;
                }
                rep.pairs_checked += 1;
                // a precedes b in the (sequentially consistent) trace; ordered iff a happens-before b.
                // A swap that follows a successful compare-exchange of the same operation relies on
                // that compare-exchange (the hand-off through the count) to have made the location
                // quiescent: the ordering must already exist at that gate, not only at the swap
                // itself, which would also "synchronise" with whatever it happens to read.
                let bclock = match (&b.gate, b.kind) {
                    (Some(g), Kind::Swap) => g,
                    _ => &b.clock,
                };
                if bclock[a.thread] < a.stamp {
                    if rep.violation.is_none() {
                        rep.violation = Some(format!(
                            "location {:#x}: {:?} by thread {} (trace #{}) and {:?} by thread {} (trace #{}) are not ordered by happens-before",
                            addr, a.kind, a.thread, a.trace_idx, b.kind, b.thread, b.trace_idx
                        ));
                    }
                }
            }
            if b.kind == Kind::Swap {
                rep.swaps_checked += 1;
            }
        }
    }
    rep
}
