//! Happens-before monitor over a scheduler trace (DESIGN.md §3.3).
//!
//! The executions the scheduler produces are sequentially consistent, so a weak-memory anomaly can
//! never be observed directly. But every hooked operation reports its memory-ordering argument, so
//! the monitor rebuilds the C++11 happens-before relation of the execution with vector clocks:
//! release stores / RMWs publish the thread's clock into the location's release clock (an RMW of any
//! ordering continues a release sequence, a plain relaxed store ends it), acquire loads / RMWs join
//! it, lock release / acquire likewise.
//!
//! Invariant checked: every `swap` access (the collector's read-and-reset of a shard's sum and
//! buckets) is ordered by happens-before with every access to the same location by another thread;
//! for earlier accesses the order must already be established *before* the swap executes (the
//! swapping thread's clock without the swap's own acquire join), i.e. through the preceding hand-off.

use std::collections::HashMap;
use std::sync::atomic::Ordering;

use crate::sched::{Ann, Kind, TraceEv};

type VC = Vec<u64>;

fn join(a: &mut VC, b: &VC) {
    for (x, y) in a.iter_mut().zip(b) {
        if *y > *x {
            *x = *y;
        }
    }
}

fn acq(o: Ordering) -> bool {
    matches!(o, Ordering::Acquire | Ordering::AcqRel | Ordering::SeqCst)
}
fn rel(o: Ordering) -> bool {
    matches!(o, Ordering::Release | Ordering::AcqRel | Ordering::SeqCst)
}

struct Access {
    /// For a swap: the accessing thread's clock just before the swap (without the swap's own acquire join).
    gate: Option<VC>,
    thread: usize,
    stamp: u64, // the accessing thread's own clock component at the access
    clock: VC,  // its full clock right after the access (after any acquire join)
    kind: Kind,
    trace_idx: usize,
}

pub struct HbReport {
    pub swaps_checked: usize,
    pub pairs_checked: usize,
    /// (description) of the first unordered pair, if any
    pub violation: Option<String>,
}

pub fn check(trace: &[TraceEv], nthreads: usize) -> HbReport {
    let mut clocks: Vec<VC> = (0..nthreads).map(|_| vec![0; nthreads]).collect();
    let mut relclk: HashMap<usize, VC> = HashMap::new();
    let mut lockclk: HashMap<usize, VC> = HashMap::new();
    let mut accesses: HashMap<usize, Vec<Access>> = HashMap::new();
    let mut swapped: Vec<usize> = vec![];

    for (ti, ev) in trace.iter().enumerate() {
        let Ann::Sync(e) = &ev.ann else { continue };
        let t = ev.thread;
        clocks[t][t] += 1;
        match e.kind {
            Kind::MutexLock | Kind::RwWrite | Kind::RwRead => {
                if let Some(l) = lockclk.get(&e.addr) {
                    let l = l.clone();
                    join(&mut clocks[t], &l);
                }
                continue;
            }
            Kind::MutexTryLock | Kind::RwTryRead | Kind::RwTryWrite => {
                if ev.outcome.as_ref().map_or(false, |o| o.ok) {
                    if let Some(l) = lockclk.get(&e.addr) {
                        let l = l.clone();
                        join(&mut clocks[t], &l);
                    }
                }
                continue;
            }
            Kind::MutexUnlock | Kind::RwWriteUnlock | Kind::RwReadUnlock => {
                let c = clocks[t].clone();
                join(lockclk.entry(e.addr).or_insert_with(|| vec![0; nthreads]), &c);
                continue;
            }
            _ => {}
        }
        let Some(o) = &ev.outcome else { continue };
        let pre_clock = clocks[t].clone();
        match e.kind {
            Kind::Load => {
                if acq(e.success) {
                    if let Some(r) = relclk.get(&e.addr) {
                        let r = r.clone();
                        join(&mut clocks[t], &r);
                    }
                }
            }
            Kind::Store => {
                if rel(e.success) {
                    relclk.insert(e.addr, clocks[t].clone());
                } else {
                    relclk.remove(&e.addr);
                }
            }
            Kind::Swap | Kind::FetchAdd | Kind::FetchSub | Kind::FetchRmw => {
                if acq(e.success) {
                    if let Some(r) = relclk.get(&e.addr) {
                        let r = r.clone();
                        join(&mut clocks[t], &r);
                    }
                }
                if rel(e.success) {
                    let c = clocks[t].clone();
                    join(relclk.entry(e.addr).or_insert_with(|| vec![0; nthreads]), &c);
                }
                // a non-release RMW leaves the release sequence intact
            }
            Kind::CasWeak | Kind::Cas => {
                if o.ok {
                    if acq(e.success) {
                        if let Some(r) = relclk.get(&e.addr) {
                            let r = r.clone();
                            join(&mut clocks[t], &r);
                        }
                    }
                    if rel(e.success) {
                        let c = clocks[t].clone();
                        join(relclk.entry(e.addr).or_insert_with(|| vec![0; nthreads]), &c);
                    }
                } else if acq(e.failure) {
                    if let Some(r) = relclk.get(&e.addr) {
                        let r = r.clone();
                        join(&mut clocks[t], &r);
                    }
                }
            }
            _ => {}
        }
        if e.kind == Kind::Swap && !swapped.contains(&e.addr) {
            swapped.push(e.addr);
        }
        let gate = if e.kind == Kind::Swap { Some(pre_clock) } else { None };
        accesses.entry(e.addr).or_default().push(Access { gate, thread: t, stamp: clocks[t][t], clock: clocks[t].clone(), kind: e.kind, trace_idx: ti });
    }

    let mut rep = HbReport { swaps_checked: 0, pairs_checked: 0, violation: None };
    for addr in swapped {
        let acc = &accesses[&addr];
        for (j, b) in acc.iter().enumerate() {
            for a in acc[..j].iter() {
                if a.thread == b.thread {
                    continue;
                }
                if a.kind != Kind::Swap && b.kind != Kind::Swap {
                    continue;
                }
                rep.pairs_checked += 1;
                // a precedes b in the (sequentially consistent) trace; ordered iff a happens-before b.
                // A swap (the collector's read-and-reset) is only safe if the location is already
                // quiescent when it executes: the ordering must exist *before* the swap, through
                // the hand-off that preceded it (the count), not only through the swap's own acquire
                // read, which "synchronises" with whatever it happens to read in this execution and
                // guarantees nothing about executions in which the other write lands later.
                let bclock = match (&b.gate, b.kind) {
                    (Some(g), Kind::Swap) => g,
                    _ => &b.clock,
                };
                if bclock[a.thread] < a.stamp {
                    if rep.violation.is_none() {
                        rep.violation = Some(format!(
                            "location {:#x}: {:?} by thread {} (trace #{}) and {:?} by thread {} (trace #{}) are not ordered by happens-before",
                            addr, a.kind, a.thread, a.trace_idx, b.kind, b.thread, b.trace_idx
                        ));
                    }
                }
            }
            if b.kind == Kind::Swap {
                rep.swaps_checked += 1;
            }
        }
    }
    rep
}
