//! Generator of metric families (neutral records): what a custom collector can supply through the
//! public setters, and what real metrics produce through `Registry::gather()`.

use prometheus::core::Collector;
use prometheus::{
    Counter, CounterVec, Gauge, GaugeVec, Histogram, HistogramOpts, HistogramVec, IntCounter, IntGaugeVec, Opts, Registry,
};

use crate::neutral::{neutral_all, NFamily, NSample, NType, NValue};
use crate::pools::{distinct, METRIC_NAMES, TEXT_FRAGS, VALID_LABEL_NAMES};
use crate::src::Src;

pub struct GenOpts {
    pub allow_untyped: bool,
    pub allow_empty_family: bool,
    pub max_families: usize,
}

pub fn gen_text(src: &mut Src) -> String {
    let mut t = src.text(TEXT_FRAGS, 4);
    if src.chance(3) {
        // rarely: a string that crosses typical buffer thresholds
        let l = crate::pools::long_frags();
        t.push_str(l[src.below(l.len())]);
    }
    t
}

pub fn gen_ts(src: &mut Src) -> i64 {
    match src.below(8) {
        0..=3 => 0,
        4 => 1,
        5 => -1,
        6 => {
            if src.chance(128) {
                i64::MAX
            } else {
                i64::MIN
            }
        }
        _ => src.u64raw() as i64,
    }
}

pub fn gen_count(src: &mut Src) -> u64 {
    match src.below(6) {
        0 => 0,
        1 => src.below(100) as u64,
        2 => (1u64 << 53) + 1,
        3 => u64::MAX,
        4 => 1u64 << 63,
        _ => src.u64raw(),
    }
}

fn gen_labels(src: &mut Src, reserved: &str) -> Vec<(String, String)> {
    let n = src.below(6);
    // the two names the text format reserves, each where it is an ordinary label: `quantile` on everything but a summary, `le` on
    // everything but a histogram
    let pool: Vec<&str> = VALID_LABEL_NAMES.iter().copied().chain(["quantile", "le"]).filter(|n| *n != reserved).collect();
    let names = distinct(src, &pool, n);
    let mut out: Vec<(String, String)> = names.into_iter().map(|n| (n.to_string(), gen_text(src))).collect();
    if n == 5 && src.chance(60) {
        // the library imposes no limit on the number of labels: occasionally many more
        let mut extra = src.below(40);
        if extra >= 32 {
            // ... now and then beyond 64 and 128 (bit masks and small arrays indexed by label position end there)
            extra += 30 + src.below(110);
        }
        for k in 0..extra {
            out.push((format!("w{}", k), gen_text(src)));
        }
    }
    out
}

pub fn gen_value(src: &mut Src, ty: NType) -> NValue {
    match ty {
        NType::Counter => NValue::Counter(src.f64v(&[])),
        NType::Gauge => NValue::Gauge(src.f64v(&[])),
        NType::Untyped => NValue::Untyped,
        NType::Histogram => {
            let mut nb = src.below(9);
            if nb == 8 && src.chance(80) {
                nb += src.below(150);
            }
            let mut buckets = vec![];
            for _ in 0..nb {
                let ub = if src.chance(24) { f64::INFINITY } else { src.f64v(&[]) };
                buckets.push((ub, gen_count(src)));
            }
            NValue::Histogram { count: gen_count(src), sum: src.f64v(&[]), buckets }
        }
        NType::Summary => {
            let mut nq = src.below(5);
            if nq == 4 && src.chance(80) {
                nq += src.below(60);
            }
            let mut quantiles = vec![];
            for _ in 0..nq {
                quantiles.push((src.f64v(&[]), src.f64v(&[])));
            }
            NValue::Summary { count: gen_count(src), sum: src.f64v(&[]), quantiles }
        }
    }
}

/// Families built directly (custom-collector style).
pub fn gen_custom(src: &mut Src, o: &GenOpts) -> Vec<NFamily> {
    let mut nf = src.below(o.max_families + 1);
    if nf == o.max_families && src.chance(30) {
        // occasionally many families in one exposition
        nf += src.below(60);
        if src.chance(40) {
            // rarely: hundreds to a thousand (encoders may batch, chunk or parallelise above some count)
            nf += 440 + src.below(700);
        }
    }
    let mut out = vec![];
    for _ in 0..nf {
        let name = src.pick(METRIC_NAMES).to_string();
        let help = if src.chance(40) { String::new() } else { gen_text(src) };
        let ty = match src.below(if o.allow_untyped { 5 } else { 4 }) {
            0 => NType::Counter,
            1 => NType::Gauge,
            2 => NType::Histogram,
            3 => NType::Summary,
            _ => NType::Untyped,
        };
        let mut ns = if o.allow_empty_family && src.chance(20) { 0 } else { 1 + src.below(5) };
        if ns == 5 && src.chance(40) {
            ns += src.below(150);
        }
        let mut samples = vec![];
        for _ in 0..ns {
            let reserved = match ty {
                NType::Histogram => "le",
                NType::Summary => "quantile",
                _ => "",
            };
            samples.push(NSample { labels: gen_labels(src, reserved), value: gen_value(src, ty), ts: gen_ts(src) });
        }
        out.push(NFamily { name, help, ty, samples });
    }
    out
}

/// Families obtained from real metrics through a registry. Returns the gathered library families.
pub fn gen_real(src: &mut Src) -> Vec<prometheus::proto::MetricFamily> {
    let reg = Registry::new();
    let n = 1 + src.below(4);
    let names = distinct(src, METRIC_NAMES, n);
    for name in names {
        let mut help = gen_text(src);
        if help.is_empty() {
            help = "h".into();
        }
        let mut opts = Opts::new(name, help);
        if src.chance(80) {
            opts = opts.const_label("k_", gen_text(src));
        }
        let nl = 1 + src.below(2);
        let mut lnames = distinct(src, VALID_LABEL_NAMES, nl);
        if src.chance(20) {
            // an ordinary label on every kind of vector, histogram vectors included
            lnames[0] = "quantile";
        }
        let c: Box<dyn Collector> = match src.below(8) {
            0 => {
                let c = Counter::with_opts(opts).unwrap();
                c.inc_by(nonneg(src));
                Box::new(c)
            }
            1 => {
                let g = Gauge::with_opts(opts).unwrap();
                g.set(src.f64v(&[]));
                Box::new(g)
            }
            2 => {
                let c = IntCounter::with_opts(opts).unwrap();
                c.inc_by(gen_count(src) >> 1);
                Box::new(c)
            }
            3 => {
                let bounds = gen_bounds(src);
                let h = Histogram::with_opts(HistogramOpts::from(opts).buckets(bounds.clone())).unwrap();
                for _ in 0..src.below(6) {
                    h.observe(src.f64v(&bounds));
                }
                Box::new(h)
            }
            4 => {
                let v = CounterVec::new(opts, &lnames).unwrap();
                for _ in 0..src.below(4) {
                    let vals: Vec<String> = lnames.iter().map(|_| gen_text(src)).collect();
                    v.with_label_values(&vals).inc_by(nonneg(src));
                }
                Box::new(v)
            }
            5 => {
                let v = GaugeVec::new(opts, &lnames).unwrap();
                for _ in 0..src.below(4) {
                    let vals: Vec<String> = lnames.iter().map(|_| gen_text(src)).collect();
                    v.with_label_values(&vals).set(src.f64v(&[]));
                }
                Box::new(v)
            }
            6 => {
                let v = IntGaugeVec::new(opts, &lnames).unwrap();
                for _ in 0..src.below(4) {
                    let vals: Vec<String> = lnames.iter().map(|_| gen_text(src)).collect();
                    v.with_label_values(&vals).set(src.u64raw() as i64);
                }
                Box::new(v)
            }
            _ => {
                let bounds = gen_bounds(src);
                let v = HistogramVec::new(HistogramOpts::from(opts).buckets(bounds.clone()), &lnames).unwrap();
                for _ in 0..src.below(3) {
                    let vals: Vec<String> = lnames.iter().map(|_| gen_text(src)).collect();
                    let h = v.with_label_values(&vals);
                    for _ in 0..src.below(5) {
                        h.observe(src.f64v(&bounds));
                    }
                }
                Box::new(v)
            }
        };
        reg.register(c).unwrap();
    }
    reg.gather()
}

/// A non-negative, non-NaN f64 (what `Counter::inc_by` documents as acceptable).
pub fn nonneg(src: &mut Src) -> f64 {
    let v = src.f64v(&[]).abs();
    if v.is_nan() {
        1.0
    } else {
        v
    }
}

/// A valid (strictly increasing, NaN-free) bucket list of 0..=5 bounds.
pub fn gen_bounds(src: &mut Src) -> Vec<f64> {
    let n = src.below(6);
    let mut v: Vec<f64> = (0..n).map(|_| src.f64v(&[])).filter(|x| !x.is_nan()).collect();
    v.sort_by(|a, b| a.partial_cmp(b).unwrap());
    v.dedup_by(|a, b| a == b);
    v
}

pub fn neutral_of(mfs: &[prometheus::proto::MetricFamily]) -> Vec<NFamily> {
    neutral_all(mfs)
}
