//! Free-running stage of the schedule properties: after the scheduled tiers, a batch of generated programs is
//! executed on real OS threads (see `sched::run_free`) and judged by the same oracles. This reaches
//! synchronisation that does not go through the `cfg(prometheus_verif)` shim (for instance a lock added by a
//! change under test), which the deterministic scheduler cannot interleave. It is a statistical search: it can
//! only add violations, never raise a false one (the oracles only use real-time order that the ticket counter
//! certifies), and a failing case is written as a `*.free.bin` replay file that is re-run up to 3000 times.

use crate::engine::{load_known, run_case, splitmix, CaseResult, Property, Stats, Tier};

pub const REPLAY_ATTEMPTS: usize = 3000;

pub fn cases(tier: Tier) -> usize {
    match tier {
        Tier::Quick => 6000,
        Tier::Thorough => 300_000,
    }
}

/// Runs one case in free mode on the calling thread.
pub fn run_free_case(prop: &dyn Property, bytes: &[u8], st: Option<&mut Stats>) -> CaseResult {
    let known = load_known(prop.id());
    crate::schedsrc::set_free(true);
    let r = run_case(prop, bytes, &known, st);
    crate::schedsrc::set_free(false);
    r
}

pub fn free_runs(prop: &dyn Property, tier: Tier, seed: u64, stats: &mut Stats) -> Result<(), (String, String, Vec<u8>)> {
    let total = cases(tier);
    let runners = 4usize; // each case occupies 2-4 cores for a few microseconds
    let bud = prop.budget(Tier::Quick);
    let next = std::sync::atomic::AtomicUsize::new(0);
    let stop = std::sync::atomic::AtomicBool::new(false);
    let failure: std::sync::Mutex<Option<(String, String, Vec<u8>)>> = std::sync::Mutex::new(None);
    let counts = std::sync::Mutex::new((0usize, 0usize)); // executed, passed
    std::thread::scope(|s| {
        for r in 0..runners {
            let (next, stop, failure, counts) = (&next, &stop, &failure, &counts);
            s.spawn(move || {
                let mut x = splitmix(seed ^ 0xF4EE ^ ((r as u64) << 32));
                let mut executed = 0usize;
                let mut passed = 0usize;
                loop {
                    if stop.load(std::sync::atomic::Ordering::Relaxed) || next.fetch_add(1, std::sync::atomic::Ordering::Relaxed) >= total {
                        break;
                    }
                    x = splitmix(x);
                    let len = bud.min_len + (x as usize) % (bud.max_len.min(160) - bud.min_len + 1);
                    let mut bytes = Vec::with_capacity(len);
                    let mut y = x;
                    for _ in 0..len {
                        y = splitmix(y);
                        bytes.push((y >> 24) as u8);
                    }
                    executed += 1;
                    match run_free_case(prop, &bytes, None) {
                        CaseResult::Fail { sig, detail } => {
                            stop.store(true, std::sync::atomic::Ordering::Relaxed);
                            let mut f = failure.lock().unwrap();
                            if f.is_none() {
                                *f = Some((sig, format!("{} ;; found on free-running threads (not under the deterministic scheduler): reproduces only statistically", detail), bytes));
                            }
                            break;
                        }
                        CaseResult::Pass | CaseResult::Known(_) => passed += 1,
                        CaseResult::Discard => {}
                    }
                }
                let mut c = counts.lock().unwrap();
                c.0 += executed;
                c.1 += passed;
            });
        }
    });
    let c = counts.into_inner().unwrap();
    stats.extra.push((
        "free_running_threads".into(),
        serde_json::json!({
            "cases_executed": c.0,
            "cases_judged": c.1,
            "note": "generated programs executed on real OS threads released by a spin barrier, no hook installed; same oracles, real-time order certified by a global ticket counter; statistical, complements the deterministic schedules"
        }),
    ));
    match failure.into_inner().unwrap() {
        Some(f) => Err(f),
        None => Ok(()),
    }
}
