//! Writers with legal but unusual behaviour, shared by the encoder properties.

/// A peer that stalls once: takes bytes until `accept` have arrived, answers the next call with `WouldBlock` (or `Interrupted`)
/// and takes everything from then on. What an encoder may do with it: report the error, or deliver every byte exactly once.
pub struct StallWriter {
    pub accept: usize,
    pub kind: std::io::ErrorKind,
    pub stalled: bool,
    pub got: Vec<u8>,
}

impl std::io::Write for StallWriter {
    fn write(&mut self, buf: &[u8]) -> std::io::Result<usize> {
        if !self.stalled {
            if self.got.len() >= self.accept {
                self.stalled = true;
                return Err(std::io::Error::new(self.kind, "peer not ready"));
            }
            let n = buf.len().min(self.accept - self.got.len());
            self.got.extend_from_slice(&buf[..n]);
            return Ok(n);
        }
        self.got.extend_from_slice(buf);
        Ok(buf.len())
    }
    fn flush(&mut self) -> std::io::Result<()> {
        Ok(())
    }
}

/// Accepts at most `max` bytes per call and reports how many it took.
pub struct ShortWriter {
    pub max: usize,
    /// own write_vectored that fills its quota across several slices (otherwise the default: first non-empty slice only)
    pub vectored: bool,
    pub got: Vec<u8>,
    pub calls: usize,
}

impl std::io::Write for ShortWriter {
    fn write(&mut self, buf: &[u8]) -> std::io::Result<usize> {
        self.calls += 1;
        let n = self.max.min(buf.len());
        self.got.extend_from_slice(&buf[..n]);
        Ok(n)
    }
    fn write_vectored(&mut self, bufs: &[std::io::IoSlice<'_>]) -> std::io::Result<usize> {
        if !self.vectored {
            let first = bufs.iter().find(|b| !b.is_empty()).map_or(&[][..], |b| &**b);
            return self.write(first);
        }
        self.calls += 1;
        let mut left = self.max;
        let mut n = 0;
        for b in bufs {
            let k = left.min(b.len());
            self.got.extend_from_slice(&b[..k]);
            n += k;
            left -= k;
            if left == 0 {
                break;
            }
        }
        Ok(n)
    }
    fn flush(&mut self) -> std::io::Result<()> {
        Ok(())
    }
}


/// Simultaneous use from free-running threads (statistical): `jobs[i]` is run alone first (the reference), then all
/// jobs are run at the same moment on their own threads, `rounds` times; every simultaneous result must equal the
/// reference of its job. Returns the first disagreement as (job index, round, got).
pub fn simultaneous_agreement<T: PartialEq + Send, F: Fn() -> T + Sync>(jobs: &[F], rounds: usize) -> Option<(usize, usize, T)> {
    let reference: Vec<T> = jobs.iter().map(|j| j()).collect();
    let n = jobs.len();
    for round in 0..rounds {
        let ready = std::sync::atomic::AtomicUsize::new(0);
        let results: Vec<T> = std::thread::scope(|s| {
            let hs: Vec<_> = jobs
                .iter()
                .map(|j| {
                    let ready = &ready;
                    s.spawn(move || {
                        ready.fetch_add(1, std::sync::atomic::Ordering::SeqCst);
                        while ready.load(std::sync::atomic::Ordering::SeqCst) < n {
                            crate::iohelp::spin_or_yield();
                        }
                        j()
                    })
                })
                .collect();
            hs.into_iter().map(|h| h.join().expect("job panicked")).collect()
        });
        for (i, r) in results.into_iter().enumerate() {
            if r != reference[i] {
                return Some((i, round, r));
            }
        }
    }
    None
}


/// One step of a start barrier: spin a little, then give the core away (so that a barrier also completes quickly on a
/// machine with fewer free cores than threads).
pub fn spin_or_yield() {
    thread_local! { static N: std::cell::Cell<u32> = const { std::cell::Cell::new(0) }; }
    let n = N.with(|c| {
        let v = c.get().wrapping_add(1);
        c.set(v);
        v
    });
    if n % 256 == 0 {
        std::thread::yield_now();
    } else {
        std::hint::spin_loop();
    }
}
