//! String pools shared by several properties (ordered simplest first).

/// Fragments for label values: concatenations of these make boundary-shifted tuples common.
pub const VALUE_FRAGS: &[&str] = &[
    "", "a", "b", "ab", "ba", "c", "é", "\u{7f}", "ÿ", "\u{80}", "日本", "😀", " ", "0",
    "aaaaaaaaaaaaaaaaaaaaaaaaaaaaaaaaaaaaaaaa", "\0", "\0\0", "abcdefg", "A", ",", "!",
    // nine bytes and more that agree in the first seven / eight, the last of these inside a multi-byte character
    "abcdefgéx", "abcdefgèx", "abcdefghi", "abcdefghj",
];

/// Adversarial fragments for help texts and label values in exposition formats.
pub const TEXT_FRAGS: &[&str] = &[
    "", "x", "help", " ", "\\", "\"", "\n", "\r", "\\n", "\\\\", "\\\"", "#", "{", "}", "=", ",", "\t",
    "\u{2028}", "\u{85}", "é", "日本", "😀", "\u{7f}", "\0", "\nx 1\n# TYPE x counter", "\" } 1\ny{z=\"",
    "# HELP a b", "1", "+Inf", "NaN", "\\x", "\u{feff}", "a b", "\\", "\u{0b}", "\u{0c}",
];

/// Long fragments (1 KiB - 128 KiB after escaping, in ASCII, multi-byte and all-escapes flavours): internal
/// buffers and fast paths tend to have thresholds.
pub fn long_frags() -> &'static [&'static str] {
    static POOL: std::sync::OnceLock<Vec<&'static str>> = std::sync::OnceLock::new();
    POOL.get_or_init(|| {
        let mk = |s: String| -> &'static str { Box::leak(s.into_boxed_str()) };
        vec![
            mk("x".repeat(1023)),
            mk("x".repeat(1024)),
            mk("y".repeat(1500)),
            mk("é".repeat(600)),
            mk("日".repeat(342)),
            mk("\\".repeat(512)),
            mk("\n".repeat(700)),
            mk("z".repeat(4097)),
            mk("q\"".repeat(9000)),
            // around the usual buffer capacities: 8 KiB (BufWriter), 16 KiB, 32 KiB, 64 KiB, and well beyond
            mk("w".repeat(8191)),
            mk("w".repeat(8193)),
            mk("v".repeat(16385)),
            mk("u".repeat(32769)),
            mk("t".repeat(65535)),
            mk("t".repeat(65537)),
            mk("é".repeat(40000)),
            mk("s".repeat(131_073)),
        ]
    })
}

/// Two strings with the same 64-bit FNV-1a hash (0x520b267f49bffd50) - the hash the library uses, without any further
/// comparison, as the key of a vector's children and (over name and constant-label values) as a descriptor's identity.
/// Found by a birthday search (about 2^32 hash evaluations); any two strings with equal FNV-1a state stay equal under
/// every common suffix, so the pair collides as label values, as metric names and inside longer keys alike.
pub const FNV64_COLLISION: (&str, &str) = ("mqhmlpemtukl3g", "mjopqa3bdnatil");

/// Two adjacent values (v1, v2) and their twin ("", z) that produce the same byte stream under any encoding that writes a
/// `w`-byte length in front of each value (w = 1: lengths wrap at 256; w = 2: at 65536): v1 is exactly 256^w bytes long, so its
/// length field reads 0 like that of the empty string, and starts with the bytes that are z's wrapped length. All bytes of the
/// length fields are the letter 'A' (0x41), so byte order does not matter.
pub fn length_wrap_twins(w: usize) -> ((String, String), (String, String)) {
    let n = if w == 1 { 256usize } else { 65536 };
    let l2 = if w == 1 { 0x41usize } else { 0x4141 };
    let x = "x".repeat(n - w);
    let a = "A".repeat(w);
    let v2 = "y".repeat(l2);
    ((format!("{}{}", a, x), v2.clone()), (String::new(), format!("{}{}{}", x, a, v2)))
}

/// Pairs of short strings whose 64-bit FNV-1a keys (value bytes followed by the 0xFF separator, as the vector computes them for
/// a single label) agree in their low 16 bits: structures that look at a part of the key only - presence filters, shards,
/// small tables - treat the two alike. Found by enumeration at first use (deterministic).
pub fn fnv_low_bits_pairs() -> &'static Vec<(String, String)> {
    static POOL: std::sync::OnceLock<Vec<(String, String)>> = std::sync::OnceLock::new();
    POOL.get_or_init(|| {
        let key = |s: &str| -> u64 {
            let mut h: u64 = 0xcbf29ce484222325;
            for b in s.bytes().chain(std::iter::once(0xFFu8)) {
                h ^= b as u64;
                h = h.wrapping_mul(0x100000001b3);
            }
            h
        };
        let mut seen: std::collections::HashMap<u64, String> = std::collections::HashMap::new();
        let mut out = vec![];
        for n in 0..60_000u32 {
            let s = format!("u{}", n);
            let k = key(&s) & 0xFFFF;
            match seen.get(&k) {
                Some(t) if out.len() < 6 => out.push((t.clone(), s)),
                Some(_) => {}
                None => {
                    seen.insert(k, s);
                }
            }
            if out.len() >= 6 {
                break;
            }
        }
        out
    })
}

pub const VALID_LABEL_NAMES: &[&str] = &["a", "b", "ab", "l1", "x_y", "B", "_z", "le2", "quantile_", "a0"];
pub const CONST_LABEL_NAMES: &[&str] = &["c1", "aa", "zz", "A", "k_", "c_2"];
pub const METRIC_NAMES: &[&str] = &["m", "a", "a_b", "ab", "a_total", "ns:x", "_u", "m1", "a_b_c", "zz9"];
pub const HELP_TEXTS: &[&str] = &["h", "help", "hh", "some help text", "h\u{ff}", "é"];

/// Choose `k` distinct entries of `pool` in a generated order.
pub fn distinct<'a>(src: &mut crate::src::Src, pool: &[&'a str], k: usize) -> Vec<&'a str> {
    let mut avail: Vec<&str> = pool.to_vec();
    let mut out = vec![];
    for _ in 0..k.min(pool.len()) {
        let i = src.below(avail.len());
        out.push(avail.remove(i));
    }
    out
}

/// A `BuildHasher` with an explicit seed, so that the iteration order of a `HashMap` is a generated
/// input and not an accident of the process.
#[derive(Clone, Copy, Default)]
pub struct SeededState(pub u64);

pub struct SeededHasher(u64);

impl std::hash::BuildHasher for SeededState {
    type Hasher = SeededHasher;
    fn build_hasher(&self) -> SeededHasher {
        SeededHasher(self.0 ^ 0xcbf29ce484222325)
    }
}

impl std::hash::Hasher for SeededHasher {
    fn finish(&self) -> u64 {
        let mut z = self.0;
        z = (z ^ (z >> 30)).wrapping_mul(0xBF58476D1CE4E5B9);
        z = (z ^ (z >> 27)).wrapping_mul(0x94D049BB133111EB);
        z ^ (z >> 31)
    }
    fn write(&mut self, bytes: &[u8]) {
        for b in bytes {
            self.0 ^= *b as u64;
            self.0 = self.0.wrapping_mul(0x100000001b3);
        }
    }
}
