//! C16 executor: decodes a case into a deterministic sequence of API calls, performs them, and
//! returns a canonical dump of every gather() result and of the TextEncoder output.
//!
//! This one source file is compiled twice: into the protobuf-backed harness (`pv`) and, through
//! #[path], into `harness-plain` (prometheus with default-features = false). Only API common to
//! both data models is used. The driver compares the two dumps byte for byte.

use std::collections::HashMap;

use prometheus::core::{Collector, Desc};
use prometheus::proto::MetricFamily;
use prometheus::{
    Counter, CounterVec, Encoder, Gauge, GaugeVec, Histogram, HistogramOpts, HistogramVec, IntCounter, IntCounterVec, IntGauge,
    IntGaugeVec, Opts, PullingGauge, Registry, TextEncoder,
};

use crate::neutral::{neutral_all, show_f64, NFamily, NSample, NType, NValue};
use crate::src::Src;

const NAMES: &[&str] = &["m", "a", "a_b", "req_total", "x:y", "lat", "b", "c_d", "q", "n1", "up", "z_total"];
const HELPS: &[&str] = &["h", "some help", "é\"\\\n", ""];
const LNAMES: &[&str] = &["l", "code", "a", "zz"];
const LVALS: &[&str] = &["", "v", "200", "a\"b", "x\\y", "line\nbreak", "é", "😀", " ", "vv"];
const PREFIXES: &[&str] = &["p", "ns_1", "9bad", "a b"];

enum Obj {
    C(Counter),
    IC(IntCounter),
    G(Gauge),
    IG(IntGauge),
    H(Histogram),
    P(PullingGauge),
    CV(CounterVec),
    ICV(IntCounterVec),
    GV(GaugeVec),
    IGV(IntGaugeVec),
    HV(HistogramVec),
    Custom(CustomColl),
}

#[derive(Clone)]
struct CustomColl {
    descs: Vec<Desc>,
    fams: Vec<MetricFamily>,
}

impl Collector for CustomColl {
    fn desc(&self) -> Vec<&Desc> {
        self.descs.iter().collect()
    }
    fn collect(&self) -> Vec<MetricFamily> {
        self.fams.clone()
    }
}

impl Obj {
    /// (family name, type) pairs this collector exposes.
    fn exposes(&self) -> Vec<(String, NType)> {
        let one = |c: &dyn Collector, t: NType| c.desc().iter().map(|d| (d.fq_name.clone(), t)).collect::<Vec<_>>();
        match self {
            Obj::C(m) => one(m, NType::Counter),
            Obj::IC(m) => one(m, NType::Counter),
            Obj::G(m) => one(m, NType::Gauge),
            Obj::IG(m) => one(m, NType::Gauge),
            Obj::H(m) => one(m, NType::Histogram),
            Obj::P(m) => one(m, NType::Gauge),
            Obj::CV(m) => one(m, NType::Counter),
            Obj::ICV(m) => one(m, NType::Counter),
            Obj::GV(m) => one(m, NType::Gauge),
            Obj::IGV(m) => one(m, NType::Gauge),
            Obj::HV(m) => one(m, NType::Histogram),
            Obj::Custom(m) => m.fams.iter().map(|f| (f.name().to_string(), NType::from_lib(f.get_field_type()))).collect(),
        }
    }

    fn boxed(&self) -> Box<dyn Collector> {
        match self {
            Obj::C(m) => Box::new(m.clone()),
            Obj::IC(m) => Box::new(m.clone()),
            Obj::G(m) => Box::new(m.clone()),
            Obj::IG(m) => Box::new(m.clone()),
            Obj::H(m) => Box::new(m.clone()),
            Obj::P(m) => Box::new(m.clone()),
            Obj::CV(m) => Box::new(m.clone()),
            Obj::ICV(m) => Box::new(m.clone()),
            Obj::GV(m) => Box::new(m.clone()),
            Obj::IGV(m) => Box::new(m.clone()),
            Obj::HV(m) => Box::new(m.clone()),
            Obj::Custom(m) => Box::new(m.clone()),
        }
    }
}

fn err_kind(e: &prometheus::Error) -> &'static str {
    match e {
        prometheus::Error::AlreadyReg => "AlreadyReg",
        prometheus::Error::InconsistentCardinality { .. } => "Cardinality",
        prometheus::Error::Msg(_) => "Msg",
        prometheus::Error::Io(_) => "Io",
        #[allow(unreachable_patterns)]
        _ => "Other",
    }
}

fn gen_value(src: &mut Src) -> f64 {
    match src.below(4) {
        0 => src.below(100) as f64,
        1 => src.below(1000) as f64 / 8.0,
        _ => src.f64v(&[]),
    }
}

fn nonneg(v: f64) -> f64 {
    let a = v.abs();
    if a.is_nan() {
        0.5
    } else {
        a
    }
}

fn gen_opts(src: &mut Src) -> Opts {
    let mut o = Opts::new(*src.pick(NAMES), *src.pick(HELPS));
    if src.chance(40) {
        o = o.namespace(*src.pick(&["ns", "n2"]));
    }
    if src.chance(30) {
        o = o.subsystem("sub");
    }
    for _ in 0..src.below(3) {
        o = o.const_label(*src.pick(LNAMES), *src.pick(LVALS));
    }
    o
}

fn gen_custom_family(src: &mut Src) -> (Option<Desc>, MetricFamily, NFamily) {
    let name = src.pick(NAMES).to_string();
    let help = src.pick(HELPS).to_string();
    let ty = *src.pick(&[NType::Counter, NType::Gauge, NType::Histogram, NType::Summary]);
    let ns = 1 + src.below(3);
    let mut samples = vec![];
    for _ in 0..ns {
        let nl = src.below(3);
        let mut labels = vec![];
        for i in 0..nl {
            labels.push((LNAMES[i].to_string(), src.pick(LVALS).to_string()));
        }
        let value = match ty {
            NType::Counter => NValue::Counter(gen_value(src)),
            NType::Gauge => NValue::Gauge(gen_value(src)),
            NType::Histogram => {
                let nb = src.below(4);
                if src.chance(80) {
                    // a self-consistent histogram, the way an exporter of somebody else's histogram builds it: cumulative counts, often an
                    // explicit +Inf bucket that repeats the sample count (also the all-zero histogram)
                    let mut acc = 0u64;
                    let mut buckets: Vec<(f64, u64)> = (0..nb)
                        .map(|i| {
                            acc += src.below(4) as u64 * src.below(300) as u64;
                            (i as f64 * 2.5 + 0.5, acc)
                        })
                        .collect();
                    if src.chance(160) {
                        buckets.push((f64::INFINITY, acc));
                    }
                    NValue::Histogram { count: acc, sum: gen_value(src), buckets }
                } else {
                    NValue::Histogram { count: src.u64raw() >> src.below(64), sum: gen_value(src), buckets: (0..nb).map(|i| (if src.chance(40) { f64::INFINITY } else { i as f64 + gen_value(src) }, src.below(1000) as u64)).collect() }
                }
            }
            _ => {
                let nq = src.below(3);
                NValue::Summary { count: src.below(1000) as u64, sum: gen_value(src), quantiles: (0..nq).map(|_| (gen_value(src), gen_value(src))).collect() }
            }
        };
        let ts = match src.below(4) {
            0 => src.u64raw() as i64,
            1 => 1,
            _ => 0,
        };
        samples.push(NSample { labels, value, ts });
    }
    let nf = NFamily { name: name.clone(), help: help.clone(), ty, samples };
    let mut mf = crate::neutral::to_lib(&nf);
    // a hand-built sample may carry payloads of several kinds (the family type says which one counts): add a second
    // payload of another kind after the real one
    if src.chance(60) {
        for m in mf.mut_metric().iter_mut() {
            match src.below(3) {
                0 if ty != NType::Gauge => {
                    let mut g = prometheus::proto::Gauge::default();
                    g.set_value(-7.5);
                    m.set_gauge(g);
                }
                1 if ty != NType::Counter => {
                    let mut c = prometheus::proto::Counter::default();
                    c.set_value(99.0);
                    m.set_counter(c);
                }
                2 if ty != NType::Summary => {
                    let mut su = prometheus::proto::Summary::default();
                    su.set_sample_count(3);
                    su.set_sample_sum(1.5);
                    m.set_summary(su);
                }
                _ => {}
            }
        }
    }
    // the repeated-field setters replace what is there: call them twice (first with other contents)
    if src.chance(60) {
        let real: Vec<prometheus::proto::Metric> = mf.get_metric().to_vec();
        if let Some(first) = real.first().cloned() {
            mf.set_metric(vec![first.clone(), first]);
        }
        mf.set_metric(real);
        for m in mf.mut_metric().iter_mut() {
            if ty == NType::Histogram {
                let (cnt, sum) = (m.get_histogram().get_sample_count(), m.get_histogram().get_sample_sum());
                let b: Vec<prometheus::proto::Bucket> = m.get_histogram().get_bucket().to_vec();
                let mut h = prometheus::proto::Histogram::default();
                h.set_sample_count(cnt);
                h.set_sample_sum(sum);
                h.set_bucket(b.iter().rev().cloned().collect::<Vec<_>>());
                h.set_bucket(b);
                m.set_histogram(h);
            }
            if ty == NType::Summary {
                let (cnt, sum) = (m.get_summary().sample_count(), m.get_summary().sample_sum());
                let q: Vec<prometheus::proto::Quantile> = m.get_summary().get_quantile().to_vec();
                let mut su = prometheus::proto::Summary::default();
                su.set_sample_count(cnt);
                su.set_sample_sum(sum);
                su.set_quantile(q.iter().rev().cloned().collect::<Vec<_>>());
                su.set_quantile(q);
                m.set_summary(su);
            }
        }
    }
    // the take_* accessors hand out one field and leave the rest of the message alone: take the samples (and each sample's labels) out
    // and put them back
    if src.chance(60) {
        let mut ms = mf.take_metric();
        for m in ms.iter_mut() {
            let ls = m.take_label();
            m.set_label(ls);
        }
        mf.set_metric(ms);
    }
    // a sample built by copying the real one over a decoy with Clone::clone_from (every field must follow)
    if src.chance(50) {
        for m in mf.mut_metric().iter_mut() {
            let mut decoy = prometheus::proto::Metric::default();
            decoy.set_timestamp_ms(777);
            let mut g = prometheus::proto::Gauge::default();
            g.set_value(-1.25);
            decoy.set_gauge(g);
            let mut lp = prometheus::proto::LabelPair::default();
            lp.set_name("decoy".to_string());
            lp.set_value("d".to_string());
            decoy.set_label(vec![lp.clone(), lp]);
            decoy.clone_from(m);
            *m = decoy;
        }
    }
    // label pairs are plain setter-built values: build them again with the setters called in another order (value first; or a
    // provisional name, the value, then the real name)
    if src.chance(70) {
        let style = src.below(3);
        for m in mf.mut_metric().iter_mut() {
            let pairs: Vec<(String, String)> = m.get_label().iter().map(|l| (l.name().to_string(), l.value().to_string())).collect();
            let rebuilt: Vec<prometheus::proto::LabelPair> = pairs
                .into_iter()
                .map(|(n, v)| {
                    let mut lp = prometheus::proto::LabelPair::default();
                    match style {
                        0 => {
                            lp.set_value(v);
                            lp.set_name(n);
                        }
                        1 => {
                            lp.set_name("provisional".to_string());
                            lp.set_value(v);
                            lp.set_name(n);
                        }
                        _ => {
                            lp.set_value("provisional".to_string());
                            lp.set_name(n);
                            lp.set_value(v);
                        }
                    }
                    lp
                })
                .collect();
            m.set_label(rebuilt);
        }
    }
    // exercise defaults: a family whose type / help was never set
    if src.chance(30) {
        let mut bare = MetricFamily::default();
        bare.set_name(name.clone());
        bare.set_metric(mf.take_metric());
        mf = bare;
    }
    let desc = Desc::new(name, if help.is_empty() { "h".to_string() } else { help }, vec![], HashMap::new()).ok();
    (desc, mf, nf)
}

pub struct Outcome {
    /// collectors of different metric types were registered under one name in one registry: the
    /// gathered family type then depends on hash-map order (C14's known finding), so the scenario
    /// is not deterministic and is discarded by the driver
    pub mixed: bool,
    pub dump: String,
    pub nontrivial: bool,
    pub summary: String,
}

/// Execute the scenario once. Everything observable goes into the dump.
pub fn run(bytes: &[u8]) -> Outcome {
    let mut src = Src::new(bytes);
    let src = &mut src;
    let mut out = String::new();
    let mut objs: Vec<Obj> = vec![];
    let mut regs: Vec<Registry> = vec![Registry::new()];
    let nsteps = 6 + src.below(25);
    let mut summary: Vec<String> = vec![];
    let mut gathered_types: Vec<NType> = vec![];
    let mut gathered_fams = 0usize;
    let mut any_label = false;
    let mut any_nonint = false;
    let mut mixed = false;
    let mut types_in: HashMap<(usize, String), NType> = HashMap::new();
    let mut note_registered = |r: usize, ob: &Obj, mixed: &mut bool| {
        for (name, t) in ob.exposes() {
            match types_in.get(&(r, name.clone())) {
                Some(t0) if *t0 != t => *mixed = true,
                _ => {
                    types_in.insert((r, name), t);
                }
            }
        }
    };

    // what the previous gather (of whichever registry) returned: the next result is copied over it with Clone::clone_from, the way a
    // scraper re-uses its snapshot buffer, and the copy is what gets dumped and encoded
    let prev: std::cell::RefCell<Vec<MetricFamily>> = std::cell::RefCell::new(vec![]);
    let dump_gather = |out: &mut String, reg: &Registry, gathered_types: &mut Vec<NType>, gathered_fams: &mut usize, any_label: &mut bool, any_nonint: &mut bool| {
        let orig = reg.gather();
        let mut fams: Vec<MetricFamily> = prev.borrow().clone();
        fams.clone_from(&orig);
        out.push_str(&format!("COPY-EQ {}\n", fams == orig));
        *prev.borrow_mut() = orig;
        let n = neutral_all(&fams);
        *gathered_fams = (*gathered_fams).max(n.len());
        for f in &n {
            if !gathered_types.contains(&f.ty) {
                gathered_types.push(f.ty);
            }
            out.push_str(&format!("F {:?} {:?} {}\n", f.name, f.help, f.ty.text()));
            for s in &f.samples {
                if !s.labels.is_empty() {
                    *any_label = true;
                }
                out.push_str(&format!(" S {:?} ts={} ", s.labels, s.ts));
                match &s.value {
                    NValue::Counter(v) | NValue::Gauge(v) => {
                        if v.fract() != 0.0 {
                            *any_nonint = true;
                        }
                        out.push_str(&format!("v={}\n", show_f64(*v)))
                    }
                    NValue::Histogram { count, sum, buckets } => out.push_str(&format!(
                        "h count={} sum={} buckets={:?}\n",
                        count,
                        show_f64(*sum),
                        buckets.iter().map(|b| (show_f64(b.0), b.1)).collect::<Vec<_>>()
                    )),
                    NValue::Summary { count, sum, quantiles } => out.push_str(&format!(
                        "s count={} sum={} q={:?}\n",
                        count,
                        show_f64(*sum),
                        quantiles.iter().map(|q| (show_f64(q.0), show_f64(q.1))).collect::<Vec<_>>()
                    )),
                    NValue::Untyped => out.push_str("untyped\n"),
                }
            }
        }
        let enc = TextEncoder::new();
        let mut buf = Vec::new();
        match enc.encode(&fams, &mut buf) {
            Ok(()) => out.push_str(&format!("T1 {}\n", hex(&buf))),
            Err(e) => out.push_str(&format!("T1 ERR {}\n", err_kind(&e))),
        }
        let mut s = String::new();
        match enc.encode_utf8(&fams, &mut s) {
            Ok(()) => out.push_str(&format!("T2 {}\n", hex(s.as_bytes()))),
            Err(e) => out.push_str(&format!("T2 ERR {}\n", err_kind(&e))),
        }
        match enc.encode_to_string(&fams) {
            Ok(s) => out.push_str(&format!("T3 {}\n", hex(s.as_bytes()))),
            Err(e) => out.push_str(&format!("T3 ERR {}\n", err_kind(&e))),
        }
    };

    for step in 0..nsteps {
        let op = src.below(16);
        match op {
            0 | 1 => {
                let o = gen_opts(src);
                let k = src.below(6);
                let r: Result<Obj, prometheus::Error> = match k {
                    0 => Counter::with_opts(o).map(Obj::C),
                    1 => IntCounter::with_opts(o).map(Obj::IC),
                    2 => Gauge::with_opts(o).map(Obj::G),
                    3 => IntGauge::with_opts(o).map(Obj::IG),
                    4 => {
                        let nb = src.below(4);
                        let b: Vec<f64> = (0..nb).map(|i| i as f64 * 2.0 + src.below(4) as f64 / 2.0).collect();
                        Histogram::with_opts(HistogramOpts::from(o).buckets(b)).map(Obj::H)
                    }
                    _ => {
                        let v = gen_value(src);
                        PullingGauge::new(o.name.clone(), o.help.clone(), Box::new(move || v)).map(Obj::P)
                    }
                };
                match r {
                    Ok(ob) => {
                        out.push_str(&format!("{} new{} ok\n", step, k));
                        if src.chance(190) {
                            let r = src.below(regs.len());
                            let res = regs[r].register(ob.boxed());
                            if res.is_ok() {
                                note_registered(r, &ob, &mut mixed);
                            }
                            out.push_str(&format!("{} autoreg@{} {}\n", step, r, match &res { Ok(()) => "ok", Err(e) => err_kind(e) }));
                        }
                        objs.push(ob);
                    }
                    Err(e) => out.push_str(&format!("{} new{} err {}\n", step, k, err_kind(&e))),
                }
                summary.push(format!("new{}", k));
            }
            2 | 3 => {
                let o = gen_opts(src);
                let nl = 1 + src.below(2);
                let names: Vec<&str> = (0..nl).map(|_| *src.pick(LNAMES)).collect();
                let k = src.below(5);
                let r: Result<Obj, prometheus::Error> = match k {
                    0 => CounterVec::new(o, &names).map(Obj::CV),
                    1 => IntCounterVec::new(o, &names).map(Obj::ICV),
                    2 => GaugeVec::new(o, &names).map(Obj::GV),
                    3 => IntGaugeVec::new(o, &names).map(Obj::IGV),
                    _ => HistogramVec::new(HistogramOpts::from(o).buckets(vec![0.5, 2.0]), &names).map(Obj::HV),
                };
                match r {
                    Ok(ob) => {
                        out.push_str(&format!("{} vec{} ok\n", step, k));
                        if src.chance(190) {
                            let r = src.below(regs.len());
                            let res = regs[r].register(ob.boxed());
                            if res.is_ok() {
                                note_registered(r, &ob, &mut mixed);
                            }
                            out.push_str(&format!("{} autoreg@{} {}\n", step, r, match &res { Ok(()) => "ok", Err(e) => err_kind(e) }));
                        }
                        objs.push(ob);
                    }
                    Err(e) => out.push_str(&format!("{} vec{} err {}\n", step, k, err_kind(&e))),
                }
                summary.push(format!("vec{}", k));
            }
            4..=8 => {
                if objs.is_empty() {
                    continue;
                }
                let i = src.below(objs.len());
                let v = gen_value(src);
                let nvals = 1 + src.below(2);
                let vals: Vec<&str> = (0..nvals).map(|_| *src.pick(LVALS)).collect();
                let sub = src.below(8);
                let res: String = match &objs[i] {
                    Obj::C(m) => {
                        m.inc_by(nonneg(v));
                        "ok".into()
                    }
                    Obj::IC(m) => {
                        m.inc_by(nonneg(v) as u64);
                        "ok".into()
                    }
                    Obj::G(m) => {
                        if sub < 4 {
                            m.set(v)
                        } else {
                            m.add(v)
                        }
                        "ok".into()
                    }
                    Obj::IG(m) => {
                        if sub < 4 {
                            m.set(v as i64)
                        } else {
                            m.sub(v as i64 >> 1)
                        }
                        "ok".into()
                    }
                    Obj::H(m) => {
                        m.observe(v);
                        "ok".into()
                    }
                    Obj::P(_) | Obj::Custom(_) => "nop".into(),
                    Obj::CV(m) => vec_op(sub, || m.get_metric_with_label_values(&vals).map(|c| c.inc_by(nonneg(v))), || m.remove_label_values(&vals), || m.reset()),
                    Obj::ICV(m) => vec_op(sub, || m.get_metric_with_label_values(&vals).map(|c| c.inc_by(nonneg(v) as u64)), || m.remove_label_values(&vals), || m.reset()),
                    Obj::GV(m) => vec_op(sub, || m.get_metric_with_label_values(&vals).map(|c| c.set(v)), || m.remove_label_values(&vals), || m.reset()),
                    Obj::IGV(m) => vec_op(sub, || m.get_metric_with_label_values(&vals).map(|c| c.add(v as i64)), || m.remove_label_values(&vals), || m.reset()),
                    Obj::HV(m) => vec_op(sub, || m.get_metric_with_label_values(&vals).map(|c| c.observe(v)), || m.remove_label_values(&vals), || m.reset()),
                };
                out.push_str(&format!("{} upd#{} {}\n", step, i, res));
                summary.push(format!("upd#{}", i));
            }
            9 => {
                let prefix = match src.below(3) {
                    0 => None,
                    _ => Some(src.pick(PREFIXES).to_string()),
                };
                let labels = if src.chance(128) {
                    let mut m = HashMap::new();
                    for _ in 0..src.below(3) {
                        // "zz" and "a" are also metric label names: a registry label may repeat a metric's own label (name and value)
                        m.insert(src.pick(&["r1", "env", "bad-name", "zz", "a"]).to_string(), src.pick(LVALS).to_string());
                    }
                    Some(m)
                } else {
                    None
                };
                match Registry::new_custom(prefix, labels) {
                    Ok(r) => {
                        regs.push(r);
                        out.push_str(&format!("{} reg ok\n", step));
                    }
                    Err(e) => out.push_str(&format!("{} reg err {}\n", step, err_kind(&e))),
                }
                summary.push("newreg".into());
            }
            10..=12 => {
                if objs.is_empty() {
                    continue;
                }
                let i = src.below(objs.len());
                let r = src.below(regs.len());
                let unreg = op == 12;
                let res = if unreg { regs[r].unregister(objs[i].boxed()) } else { regs[r].register(objs[i].boxed()) };
                if !unreg && res.is_ok() {
                    note_registered(r, &objs[i], &mut mixed);
                }
                out.push_str(&format!(
                    "{} {}#{}@{} {}\n",
                    step,
                    if unreg { "unreg" } else { "reg" },
                    i,
                    r,
                    match &res {
                        Ok(()) => "ok",
                        Err(e) => err_kind(e),
                    }
                ));
                summary.push(format!("{}#{}", if unreg { "unreg" } else { "reg" }, i));
            }
            13 => {
                let nf = 1 + src.below(2);
                let mut descs = vec![];
                let mut fams = vec![];
                for _ in 0..nf {
                    let (d, mf, _) = gen_custom_family(src);
                    if let Some(d) = d {
                        descs.push(d);
                    }
                    fams.push(mf);
                }
                objs.push(Obj::Custom(CustomColl { descs, fams }));
                out.push_str(&format!("{} custom\n", step));
                summary.push("custom".into());
            }
            _ => {
                let r = src.below(regs.len());
                out.push_str(&format!("{} gather@{}\n", step, r));
                dump_gather(&mut out, &regs[r], &mut gathered_types, &mut gathered_fams, &mut any_label, &mut any_nonint);
                summary.push(format!("gather@{}", r));
            }
        }
    }
    for (r, reg) in regs.iter().enumerate() {
        out.push_str(&format!("final gather@{}\n", r));
        dump_gather(&mut out, reg, &mut gathered_types, &mut gathered_fams, &mut any_label, &mut any_nonint);
    }
    Outcome {
        mixed,
        dump: out,
        nontrivial: gathered_fams >= 2 && gathered_types.len() >= 2 && any_label && any_nonint,
        summary: summary.join(" "),
    }
}

fn vec_op<A, B, C>(sub: usize, upd: A, rem: B, reset: C) -> String
where
    A: FnOnce() -> Result<(), prometheus::Error>,
    B: FnOnce() -> Result<(), prometheus::Error>,
    C: FnOnce(),
{
    match sub {
        0..=4 => match upd() {
            Ok(()) => "ok".into(),
            Err(e) => format!("err {}", err_kind(&e)),
        },
        5 | 6 => match rem() {
            Ok(()) => "removed".into(),
            Err(e) => format!("rem-err {}", err_kind(&e)),
        },
        _ => {
            reset();
            "reset".into()
        }
    }
}

fn hex(b: &[u8]) -> String {
    let mut s = String::with_capacity(b.len() * 2);
    for x in b {
        s.push_str(&format!("{:02x}", x));
    }
    s
}

/// Long-lived executor loop used by the child processes: one hex-encoded case per input line,
/// answer = dump lines followed by a line `END <nondeterministic 0|1>`.
pub fn serve() {
    use std::io::{BufRead, Write};
    let stdin = std::io::stdin();
    let stdout = std::io::stdout();
    let mut out = stdout.lock();
    for line in stdin.lock().lines() {
        let Ok(line) = line else { break };
        let line = line.trim();
        if line.is_empty() {
            continue;
        }
        let bytes: Vec<u8> = (0..line.len() / 2).filter_map(|i| u8::from_str_radix(&line[2 * i..2 * i + 2], 16).ok()).collect();
        let r = std::panic::catch_unwind(|| {
            let a = run(&bytes);
            let b = run(&bytes);
            (a.dump.clone(), a.dump != b.dump || a.mixed)
        });
        match r {
            Ok((dump, nondet)) => {
                let _ = out.write_all(dump.as_bytes());
                let _ = writeln!(out, "END {}", if nondet { 1 } else { 0 });
            }
            Err(_) => {
                let _ = writeln!(out, "PANIC");
                let _ = writeln!(out, "END 0");
            }
        }
        let _ = out.flush();
    }
}
