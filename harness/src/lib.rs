//! pv — property-based verification harness for tikv/rust-prometheus.
pub mod engine;
pub mod exec16;
pub mod exhaust;
pub mod fuzz;
pub mod genfam;
pub mod hb;
pub mod textparse;
pub mod neutral;
pub mod pbdecode;
pub mod pools;
pub mod props;
pub mod scenario;
pub mod sched;
pub mod schedsrc;
pub mod wgl;
pub mod src;
