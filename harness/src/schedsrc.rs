//! Decodes the schedule source of a scheduler case.

use crate::engine::Report;
use crate::sched::{Chooser, Decision, Pct, Window};
use crate::src::Src;

/// Owns a copy of the remaining choices so that the chooser does not borrow the case reader.
pub struct OwnedWalk {
    bytes: Vec<u8>,
    pos: usize,
    switch_p: u32,
    spurious_left: usize,
}

impl OwnedWalk {
    fn byte(&mut self) -> u32 {
        let b = self.bytes.get(self.pos).copied().unwrap_or(0);
        self.pos += 1;
        b as u32
    }
}

impl Chooser for OwnedWalk {
    fn choose(&mut self, d: &Decision) -> usize {
        if let Some(c) = d.current {
            if d.enabled.contains(&c) {
                let b = self.byte();
                if b + self.switch_p < 256 {
                    return c;
                }
            }
        }
        let b = self.byte() as usize;
        d.enabled[(b * d.enabled.len()) >> 8]
    }
    fn fail_spuriously(&mut self, _d: &Decision, _t: usize) -> bool {
        if self.spurious_left > 0 {
            let b = self.byte();
            if b >= 232 {
                self.spurious_left -= 1;
                return true;
            }
        }
        false
    }
}

/// The first byte selects the schedule source; the rest of the case bytes parameterise it.
pub fn make_chooser(src: &mut Src, nthreads: usize, horizon: usize, rep: &mut Report) -> Box<dyn Chooser> {
    let which = if nthreads < 2 { 0 } else { src.below(4) };
    match which {
        0 | 1 => {
            rep.class("schedule:walk");
            let switch_p = [64u32, 32, 128][src.below(3)];
            let spurious_left = src.below(4);
            // the walk consumes raw bytes lazily; hand it the rest of the case
            let n = 400;
            let bytes: Vec<u8> = (0..n).map(|_| src.byte()).collect();
            Box::new(OwnedWalk { bytes, pos: 0, switch_p, spurious_left })
        }
        2 => {
            rep.class("schedule:pct");
            let mut p = Pct::from_src(src, nthreads, horizon);
            // room for a held-back finalizer thread (lowest priority)
            p.prio.push(-1_000_000);
            Box::new(p)
        }
        _ => {
            rep.class("schedule:window");
            let victim = src.below(nthreads);
            let mut other = src.below(nthreads - 1);
            if other >= victim {
                other += 1;
            }
            Box::new(Window { victim, at: src.below(12), other, k: 1 + src.below(4), started_at: None, released: false })
        }
    }
}
