//! Decodes the schedule source of a scheduler case.

use crate::engine::Report;
use crate::sched::{Chooser, Decision, Pct, Window};
use crate::src::Src;

/// Owns a copy of the remaining choices so that the chooser does not borrow the case reader.
pub struct OwnedWalk {
    bytes: Vec<u8>,
    pos: usize,
    switch_p: u32,
    spurious_left: usize,
    /// a burst: the next `burst_left` weak compare-exchanges all fail spuriously (a weak compare-exchange may fail any
    /// number of times in a row; retry budgets and spin limits are only exercised this way)
    burst_left: usize,
    /// the burst hits the compare-exchanges of this thread only, so that all of them fall into one call
    burst_thread: usize,
}

impl OwnedWalk {
    fn byte(&mut self) -> u32 {
        let b = self.bytes.get(self.pos).copied().unwrap_or(0);
        self.pos += 1;
        b as u32
    }
}

impl Chooser for OwnedWalk {
    fn choose(&mut self, d: &Decision) -> usize {
        if let Some(c) = d.current {
            if d.enabled.contains(&c) {
                let b = self.byte();
                if b + self.switch_p < 256 {
                    return c;
                }
            }
        }
        let b = self.byte() as usize;
        d.enabled[(b * d.enabled.len()) >> 8]
    }
    fn fail_spuriously(&mut self, _d: &Decision, t: usize) -> bool {
        if self.burst_left > 0 && t == self.burst_thread {
            self.burst_left -= 1;
            return true;
        }
        if self.spurious_left > 0 {
            let b = self.byte();
            if b >= 232 {
                self.spurious_left -= 1;
                return true;
            }
        }
        false
    }
}

/// State of a preemption-bounded explicit schedule: the path of option indices taken so far. Used both to
/// replay a schedule given in the case bytes and, shared with `exhaust.rs`, to enumerate all schedules with
/// at most `bound` pre-emptions of one program.
pub struct PathState {
    pub bound: usize,
    /// (index taken, number of options) per decision
    pub path: Vec<(u8, u8)>,
    pub depth: usize,
    pub used: usize,
    /// offset in the case bytes at which the schedule source starts (for building replay files)
    pub offset: usize,
    pub nthreads: usize,
}

pub struct Bounded {
    pub st: std::rc::Rc<std::cell::RefCell<PathState>>,
}

impl Chooser for Bounded {
    fn choose(&mut self, d: &Decision) -> usize {
        let mut st = self.st.borrow_mut();
        let cur = d.current.filter(|c| d.enabled.contains(c));
        let mut options: Vec<usize> = vec![];
        match cur {
            Some(c) => {
                options.push(c);
                if st.used < st.bound {
                    options.extend(d.enabled.iter().copied().filter(|t| *t != c));
                }
            }
            None => options.extend(d.enabled.iter().copied()),
        }
        let n = options.len().min(255) as u8;
        let depth = st.depth;
        let idx = if depth < st.path.len() {
            let i = st.path[depth].0.min(n - 1);
            st.path[depth] = (i, n);
            i
        } else {
            st.path.push((0, n));
            0
        };
        st.depth += 1;
        let chosen = options[idx as usize];
        if let Some(c) = cur {
            if chosen != c {
                st.used += 1;
            }
        }
        chosen
    }
}

/// See `make_chooser`, source 5.
pub struct Interfere {
    victim: usize,
    attacker: usize,
    k: usize,
    /// the interference starts after this many steps of the victim
    after: usize,
    victim_steps: usize,
    /// whole attacker operations still to be completed before the victim gets its next step
    owed: usize,
    last_ops_done: usize,
}

impl Chooser for Interfere {
    fn choose(&mut self, d: &Decision) -> usize {
        let en = |t: usize| d.enabled.contains(&t);
        // attacker operations completed since the last decision
        if self.owed > 0 {
            let done = d.ops_done[self.attacker];
            if done > self.last_ops_done {
                self.owed = self.owed.saturating_sub(done - self.last_ops_done);
            }
            self.last_ops_done = done;
        }
        if self.owed > 0 && en(self.attacker) {
            return self.attacker;
        }
        if en(self.victim) {
            self.victim_steps += 1;
            if self.victim_steps > self.after && d.in_op[self.victim] {
                self.owed = self.k;
                self.last_ops_done = d.ops_done[self.attacker];
            }
            return self.victim;
        }
        if en(self.attacker) {
            return self.attacker;
        }
        d.enabled[0]
    }
}

thread_local! {
    /// Set by `exhaust.rs`: every chooser made on this thread is the shared enumerating one.
    pub static ENUM: std::cell::RefCell<Option<std::rc::Rc<std::cell::RefCell<PathState>>>> = const { std::cell::RefCell::new(None) };
}

pub fn enumerating() -> bool {
    ENUM.with(|e| e.borrow().is_some())
}

thread_local! {
    /// Set by `freerun.rs`: `sched::run*` called on this thread executes the program on free-running OS threads
    /// (no hook, no schedule control) instead of under the deterministic scheduler.
    pub static FREE: std::cell::Cell<bool> = const { std::cell::Cell::new(false) };
}

pub fn free_mode() -> bool {
    FREE.with(|f| f.get())
}

pub fn set_free(on: bool) {
    FREE.with(|f| f.set(on));
}

/// The first byte selects the schedule source; the rest of the case bytes parameterise it.
pub fn make_chooser(src: &mut Src, nthreads: usize, horizon: usize, rep: &mut Report) -> Box<dyn Chooser> {
    if let Some(st) = ENUM.with(|e| e.borrow().clone()) {
        {
            let mut s = st.borrow_mut();
            s.offset = src.consumed();
            s.nthreads = nthreads;
        }
        rep.class("schedule:bounded-enumeration");
        return Box::new(Bounded { st });
    }
    if free_mode() {
        rep.class("schedule:free-running-threads");
    }
    let which = if nthreads < 2 { 0 } else { src.below(6) };
    if which == 5 {
        // interference: after EVERY atomic step of one thread (the victim) another thread (the attacker) completes `k` whole
        // operations - the pattern behind ABA and read-twice defects, which need several foreign writes inside one call
        rep.class("schedule:interference");
        let victim = src.below(nthreads);
        let mut attacker = src.below(nthreads - 1);
        if attacker >= victim {
            attacker += 1;
        }
        return Box::new(Interfere { victim, attacker, k: 1 + src.below(2), after: src.below(6), victim_steps: 0, owed: 0, last_ops_done: 0 });
    }
    if which == 4 {
        rep.class("schedule:explicit-bounded");
        let bound = src.below(4);
        let path: Vec<(u8, u8)> = (0..300).map(|_| (src.byte(), 0)).collect();
        return Box::new(Bounded { st: std::rc::Rc::new(std::cell::RefCell::new(PathState { bound, path, depth: 0, used: 0, offset: 0, nthreads })) });
    }
    match which {
        0 | 1 => {
            rep.class("schedule:walk");
            let switch_p = [64u32, 32, 128][src.below(3)];
            let spurious_left = src.below(4);
            let burst_left = if src.chance(40) { 1 + src.below(130) } else { 0 };
            if burst_left > 0 {
                rep.class("spurious-failure-burst(1-130 in a row)");
            }
            let burst_thread = src.below(nthreads.max(1));
            // the walk consumes raw bytes lazily; hand it the rest of the case
            let n = 400;
            let bytes: Vec<u8> = (0..n).map(|_| src.byte()).collect();
            Box::new(OwnedWalk { bytes, pos: 0, switch_p, spurious_left, burst_left, burst_thread })
        }
        2 => {
            rep.class("schedule:pct");
            let mut p = Pct::from_src(src, nthreads, horizon);
            // room for a held-back finalizer thread (lowest priority)
            p.prio.push(-1_000_000);
            Box::new(p)
        }
        _ => {
            rep.class("schedule:window");
            let victim = src.below(nthreads);
            let mut other = src.below(nthreads - 1);
            if other >= victim {
                other += 1;
            }
            Box::new(Window { victim, at: src.below(12), other, k: 1 + src.below(4), started_at: None, released: false })
        }
    }
}
