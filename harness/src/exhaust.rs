//! Preemption-bounded exhaustive schedule enumeration for the schedule properties (thorough structure on top
//! of the random schedule sources): for generated *small* programs, every schedule with at most `bound`
//! pre-emptions (switching away from a thread that could have continued) is executed and judged by the
//! property's own oracle. Within that bound the enumeration is complete.

use std::cell::RefCell;
use std::rc::Rc;

use proptest::prelude::*;
use proptest::test_runner::{Config, RngSeed, TestRunner};

use crate::engine::{load_known, run_case, splitmix, CaseResult, Property, Stats, Tier};
use crate::schedsrc::{PathState, ENUM};

pub struct EnumBudget {
    pub programs: usize,
    pub bound: usize,
    pub max_steps: u64,
    pub cap_per_program: usize,
}

pub fn budget(tier: Tier) -> EnumBudget {
    match tier {
        Tier::Quick => EnumBudget { programs: 16, bound: 2, max_steps: 140, cap_per_program: 1500 },
        // (480 programs x 40 000 schedules made the thorough tier of the histogram properties run for hours once their programs had
        // 100+ buckets: a collection over them is hundreds of atomic steps)
        Tier::Thorough => EnumBudget { programs: 120, bound: 3, max_steps: 160, cap_per_program: 12_000 },
    }
}

/// Enumerate all schedules with <= bound pre-emptions of the program decoded from `bytes`.
/// Returns (schedules run, completed the enumeration?, failure).
fn enumerate(prop: &dyn Property, bytes: &[u8], b: &EnumBudget) -> (usize, bool, Option<(String, String, Vec<u8>)>) {
    let known = load_known(prop.id());
    let st = Rc::new(RefCell::new(PathState { bound: b.bound, path: vec![], depth: 0, used: 0, offset: 0, nthreads: 0 }));
    ENUM.with(|e| *e.borrow_mut() = Some(st.clone()));
    let mut runs = 0usize;
    let mut complete = false;
    let mut failure = None;
    loop {
        {
            let mut s = st.borrow_mut();
            s.depth = 0;
            s.used = 0;
        }
        let r = run_case(prop, bytes, &known, None);
        runs += 1;
        if let CaseResult::Fail { sig, detail } = r {
            // replay file: the program bytes, then the explicit-schedule selector, the bound and the path
            let s = st.borrow();
            let mut rb: Vec<u8> = bytes.iter().copied().chain(std::iter::repeat(0)).take(s.offset).collect();
            rb.push(200); // selects the explicit bounded schedule source ((200 * 6) >> 8 == 4)
            rb.push((s.bound * 64) as u8); // (b * 4) >> 8 == bound
            rb.extend(s.path.iter().take(s.depth).map(|p| p.0));
            failure = Some((sig, format!("{} ;; found by bounded enumeration (<= {} pre-emptions), schedule #{} of this program", detail, s.bound, runs), rb));
            break;
        }
        // next path: drop what was not used, then increment the last index that still has an alternative
        let mut s = st.borrow_mut();
        let used = s.depth.min(s.path.len());
        s.path.truncate(used);
        let mut advanced = false;
        while let Some((i, n)) = s.path.pop() {
            if i + 1 < n {
                s.path.push((i + 1, n));
                advanced = true;
                break;
            }
        }
        if !advanced {
            complete = true;
            break;
        }
        if runs >= b.cap_per_program {
            break;
        }
    }
    ENUM.with(|e| *e.borrow_mut() = None);
    (runs, complete, failure)
}

pub fn bounded_enumeration(prop: &dyn Property, tier: Tier, seed: u64, stats: &mut Stats) -> Result<(), (String, String, Vec<u8>)> {
    let b = budget(tier);
    let known = load_known(prop.id());
    // candidate programs: generated cases whose random-schedule run is short and has >= 2 threads
    let mut cands: Vec<Vec<u8>> = vec![];
    {
        let bud = prop.budget(Tier::Quick);
        let cfg = Config { cases: (b.programs * 12) as u32, rng_seed: RngSeed::Fixed(splitmix(seed ^ 0xE7A)), failure_persistence: None, ..Config::default() };
        let mut runner = TestRunner::new(cfg);
        let cell = RefCell::new(&mut cands);
        let _ = runner.run(&proptest::collection::vec(any::<u8>(), bud.min_len..=bud.max_len.min(120)), |v| {
            cell.borrow_mut().push(v);
            Ok(())
        });
    }
    let mut small: Vec<Vec<u8>> = vec![];
    for c in cands {
        if small.len() >= b.programs {
            break;
        }
        let mut st = Stats::default();
        match run_case(prop, &c, &known, Some(&mut st)) {
            CaseResult::Pass | CaseResult::Known(_) => {}
            _ => continue,
        }
        let steps = st.counters.get("steps").copied().unwrap_or(u64::MAX);
        let sequential = st.classes.contains_key("sequential-history") || st.classes.contains_key("schedule:isolation");
        if steps >= 8 && steps <= b.max_steps && !sequential {
            small.push(c);
        }
    }
    let jobs = match tier {
        Tier::Quick => 8,
        Tier::Thorough => 16,
    };
    let results: std::sync::Mutex<Vec<(usize, bool, Option<(String, String, Vec<u8>)>)>> = std::sync::Mutex::new(vec![]);
    let next = std::sync::atomic::AtomicUsize::new(0);
    let stop = std::sync::atomic::AtomicBool::new(false);
    std::thread::scope(|s| {
        for _ in 0..jobs {
            s.spawn(|| loop {
                if stop.load(std::sync::atomic::Ordering::Relaxed) {
                    break;
                }
                let i = next.fetch_add(1, std::sync::atomic::Ordering::Relaxed);
                if i >= small.len() {
                    break;
                }
                let r = enumerate(prop, &small[i], &b);
                if r.2.is_some() {
                    stop.store(true, std::sync::atomic::Ordering::Relaxed);
                }
                results.lock().unwrap().push(r);
            });
        }
    });
    let results = results.into_inner().unwrap();
    let schedules: usize = results.iter().map(|r| r.0).sum();
    let complete = results.iter().filter(|r| r.1).count();
    stats.extra.push((
        "bounded_enumeration".into(),
        serde_json::json!({
            "programs": results.len(),
            "preemption_bound": b.bound,
            "schedules_executed": schedules,
            "programs_enumerated_completely_within_bound": complete,
            "cap_per_program": b.cap_per_program,
            "note": "for each of these generated small programs every schedule with at most `preemption_bound` pre-emptions was executed and judged by the same oracle (complete within the bound unless the cap was hit)"
        }),
    ));
    for r in results {
        if let Some(f) = r.2 {
            return Err(f);
        }
    }
    Ok(())
}
