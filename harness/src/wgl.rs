//! Linearizability checker (Wing & Gong / Lowe style search with memoisation).
//!
//! A history is a set of operations with invocation and response steps taken from the scheduler's
//! total order of events; `a` precedes `b` in real time iff `a.response < b.invoke`. The search
//! looks for a total order that respects real time and reproduces every response when replayed
//! against the sequential model. Histories are small (<= ~20 operations), so the search is
//! exhaustive.

use std::collections::HashSet;
use std::hash::Hash;

pub trait Model: Clone + Eq + Hash {
    type Op;
    type Res: PartialEq;
    fn apply(&mut self, op: &Self::Op) -> Self::Res;
}

pub struct HOp<O, R> {
    pub op: O,
    pub res: R,
    pub invoke: usize,
    pub response: usize,
}

/// Returns a witness order (indices into `hist`) if the history is linearizable.
pub fn linearize<M: Model>(init: &M, hist: &[HOp<M::Op, M::Res>]) -> Option<Vec<usize>> {
    let n = hist.len();
    assert!(n <= 64);
    let mut seen: HashSet<(u64, M)> = HashSet::new();
    let mut order = vec![];
    if dfs(init.clone(), 0, hist, &mut seen, &mut order) {
        Some(order)
    } else {
        None
    }
}

fn dfs<M: Model>(state: M, done: u64, hist: &[HOp<M::Op, M::Res>], seen: &mut HashSet<(u64, M)>, order: &mut Vec<usize>) -> bool {
    let n = hist.len();
    if done == (if n == 64 { u64::MAX } else { (1u64 << n) - 1 }) {
        return true;
    }
    if !seen.insert((done, state.clone())) {
        return false;
    }
    // the earliest response among the operations not yet linearized bounds who may go next
    let mut min_resp = usize::MAX;
    for (i, h) in hist.iter().enumerate() {
        if done & (1 << i) == 0 {
            min_resp = min_resp.min(h.response);
        }
    }
    for (i, h) in hist.iter().enumerate() {
        if done & (1 << i) != 0 {
            continue;
        }
        if h.invoke > min_resp {
            continue; // some other pending operation returned before this one was called
        }
        let mut s = state.clone();
        let r = s.apply(&h.op);
        if r == h.res {
            order.push(i);
            if dfs(s, done | (1 << i), hist, seen, order) {
                return true;
            }
            order.pop();
        }
    }
    false
}

#[cfg(test)]
mod tests {
    use super::*;
    #[derive(Clone, PartialEq, Eq, Hash)]
    struct Reg(i64);
    enum Op {
        Add(i64),
        Get,
    }
    impl Model for Reg {
        type Op = Op;
        type Res = Option<i64>;
        fn apply(&mut self, op: &Op) -> Option<i64> {
            match op {
                Op::Add(v) => {
                    self.0 += v;
                    None
                }
                Op::Get => Some(self.0),
            }
        }
    }
    #[test]
    fn basic() {
        // add(1) [0,3], get->1 [1,2] overlapping: fine; get->1 strictly before add: not
        let h = vec![HOp { op: Op::Add(1), res: None, invoke: 0, response: 3 }, HOp { op: Op::Get, res: Some(1), invoke: 1, response: 2 }];
        assert!(linearize(&Reg(0), &h).is_some());
        let h = vec![HOp { op: Op::Add(1), res: None, invoke: 3, response: 4 }, HOp { op: Op::Get, res: Some(1), invoke: 1, response: 2 }];
        assert!(linearize(&Reg(0), &h).is_none());
        // lost update: two adds, final get sees 1
        let h = vec![
            HOp { op: Op::Add(1), res: None, invoke: 0, response: 3 },
            HOp { op: Op::Add(1), res: None, invoke: 1, response: 2 },
            HOp { op: Op::Get, res: Some(1), invoke: 5, response: 6 },
        ];
        assert!(linearize(&Reg(0), &h).is_none());
    }
}
