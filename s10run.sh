#!/bin/bash
# usage: work/s4run.sh SEED[:PROP]...   runs our quick check PROP (default: SEED) against round-7 seed SEED
for A in "$@"; do
  S=${A%%:*}; P=${A##*:}
  out=$(VERIF_REPO=/tmp/seed10/$S VERIF_EVIDENCE_DIR=/tmp/vdev/work/ev /tmp/vdev/bin/check $P quick 2>&1)
  code=$?
  echo "== seed $S check $P exit=$code"
  echo "$out" | grep -E "signature=|VIOLATION|held on" | cut -c1-500
done
